import PokerVerif.TB
import PokerVerif.TBSpec
import PokerVerif.Drv.SMDrv
/-! Replay of table-level traces: `TB` model vs. implementation, plus the table-level monitors (C01 C02 C03 C05
C06 C07 C08 C12) evaluated on the implementation's own snapshots. -/
namespace Drv
open TB

def statusOf (s : String) : Option Status :=
  match s with
  | "created" => some .created | "pausing" => some .pausing | "restoring" => some .restoring
  | "balancing" => some .balancing | "closed" => some .closed | "opened" => some .opened
  | "playing" => some .playing | "settled" => some .settled | "standby" => some .standby
  | _ => none

def statusStr : Status → String
  | .created => "created" | .pausing => "pausing" | .restoring => "restoring" | .balancing => "balancing"
  | .closed => "closed" | .opened => "opened" | .playing => "playing" | .settled => "settled" | .standby => "standby"

def parseBlind (s : String) : Option (Option Blind) :=
  if s == "-" then some none
  else match intList s with
    | some [l, a, d, sb, bb] => some (some { level := l, ante := a, dealer := d, sb := sb, bb := bb })
    | _ => none

def parsePlayer (s : String) : Option Player :=
  match s.splitOn ":" with
  | [id, seat, isIn, part, bank, pos] => do
    let id ← id.toNat?
    let seat ← seat.toInt?
    let isIn ← boolOf isIn
    let part ← boolOf part
    let bank ← bank.toInt?
    let positions := if pos == "-" then [] else pos.splitOn "+"
    pure { id := id, seat := seat, positions := positions, participated := part, bankroll := bank, isIn := isIn }
  | _ => none

def parsePlayers (s : String) : Option (List Player) :=
  if s == "-" then some [] else (s.splitOn ";").mapM parsePlayer

def parseGate (s : String) : Option (Nat × List Part) :=
  match s.splitOn "/" with
  | [gc, ps] => do
    let gc ← gc.toNat?
    let parts ← (commaList ps).mapM (fun c => match c.splitOn ":" with
      | [a, b, r] => do pure ({ id := (← a.toNat?), idx := (← b.toNat?), ready := (← boolOf r) } : Part)
      | _ => none)
    pure (gc, parts)
  | _ => none

/-- parse an observation into the comparable part of a `TB.State` -/
def parseTObs (cfg : Meta) (ts : List String) : Option TBSpec.Obs := do
  let st ← (kv ts "st").bind statusOf
  let started ← (kv ts "started").bind boolOf
  let gc ← kvNat ts "gc"
  let d ← kvInt ts "D"
  let sb ← kvInt ts "SB"
  let bb ← kvInt ts "BB"
  let seatMap ← (kv ts "seatmap").bind intList
  let players ← (kv ts "players").bind parsePlayers
  let gidx ← (kv ts "gidx").bind intList
  let nextBB ← (kv ts "nextbb").bind natList
  let blind ← ((kv ts "blind").bind parseBlind).bind id
  let gblind ← (kv ts "gblind").bind parseBlind
  let hasGame ← (kv ts "hasgame").bind boolOf
  let endAt ← (kv ts "endat").bind boolOf
  let last ← (kv ts "last").bind boolOf
  let smS := (kv ts "sm").getD "?"
  let sm : Option SM.State ← (if smS == "?" then some none
    else (parseObs cfg.maxSeat cfg.rule (smS.splitOn "/")).map some)
  let gateS := (kv ts "gate").getD "?"
  let gate : Option (Nat × List Part) ← (if gateS == "?" then some none else (parseGate gateS).map some)
  let relS := (kv ts "rel").getD "?"
  let rel : Option Bool ← (if relS == "?" then some none else (boolOf relS).map some)
  pure { cfg := cfg, status := st, started := started, gameCount := gc, dealer := d, sb := sb, bb := bb, seatMap := seatMap,
         players := players, gidx := gidx, nextBB := nextBB, blind := blind, gameBlind := gblind, hasGame := hasGame,
         endAt := endAt, last := last, sm := sm, gate := gate, released := rel }

def renderPlayers (ps : List Player) : String :=
  if ps.isEmpty then "-" else String.intercalate ";" (ps.map (fun p =>
    s!"{p.id}:{p.seat}:{b2s p.isIn}:{b2s p.participated}:{p.bankroll}:{if p.positions.isEmpty then "-" else String.intercalate "+" p.positions}"))

def renderInts (l : List Int) : String := if l.isEmpty then "-" else String.intercalate "," (l.map toString)
def renderNats (l : List Nat) : String := if l.isEmpty then "-" else String.intercalate "," (l.map toString)
def renderBlind (b : Option Blind) : String :=
  match b with | none => "-" | some b => s!"{b.level},{b.ante},{b.dealer},{b.sb},{b.bb}"

def renderModel (s : State) : String :=
  s!"st={statusStr s.status} started={b2s s.started} gc={s.gameCount} D={s.dealer} SB={s.sb} BB={s.bb} seatmap={renderInts s.seatMap} players={renderPlayers s.players} gidx={renderInts s.gidx} nextbb={renderNats s.nextBB} blind={renderBlind (some s.blind)} gblind={renderBlind s.gameBlind} hasgame={b2s s.hasGame} sm=[{renderState s.sm}] gate={s.gateCount}/{String.intercalate "," (s.gate.map (fun q => s!"{q.id}:{q.idx}:{b2s q.ready}"))} rel={b2s s.released}"

/-- first field in which the model and the observation differ (`none` = agree on everything observed) -/
def diffObs (m : State) (o : TBSpec.Obs) : Option String :=
  if m.status != o.status then some "status"
  else if m.started != o.started then some "started"
  else if m.gameCount != o.gameCount then some "gameCount"
  else if m.dealer != o.dealer || m.sb != o.sb || m.bb != o.bb then some "buttons"
  else if m.seatMap != o.seatMap then some "seatMap"
  else if m.players != o.players then some "players"
  else if m.gidx != o.gidx then some "gidx"
  else if m.nextBB != o.nextBB then some "nextBB"
  else if m.blind != o.blind then some "blind"
  else if m.gameBlind != o.gameBlind then some "gameBlind"
  else if m.hasGame != o.hasGame then some "hasGame"
  else if (match o.sm with | some osm => !(SMSpec.sameState m.sm osm) | none => false) then some "seat-manager"
  else if (match o.gate with
           | some (gc, ps) => m.gateCount != gc ||
               !(ps.all (fun p => m.gate.any (fun q => q == p)) && m.gate.all (fun q => ps.any (fun p => q == p)))
           | none => false) then some "gate"
  else if (match o.released with | some r => m.released != r | none => false) then some "released"
  else none

def parseJoins (s : String) : Option (List Join) :=
  if s == "-" then some [] else (s.splitOn ";").mapM (fun c => match c.splitOn ":" with
    | [a, b, d] => do pure ({ id := (← a.toNat?), chips := (← b.toInt?), seat := (← d.toInt?) } : Join)
    | _ => none)

def tbErrStr : TB.Res → List String
  | .ok => ["ok"]
  | .panic => ["panic"]
  | .err .noEmptySeats => ["err", "noEmptySeats"]
  | .err .playerNotFound => ["err", "playerNotFound"]
  | .err .invalidAction => ["err", "invalidAction"]
  | .err .invalidGameAction => ["err", "invalidGameAction"]
  | .err (.sm l) => ["err", "sm." ++ String.intercalate "/" (l.map errName)]

def tbResAgrees (m : TB.Res) (impl : List String) : Bool :=
  match m, impl with
  | .err (.sm l), ["err", n] => l.any (fun e => "sm." ++ errName e == n)
  | _, _ => tbErrStr m == impl

structure TBPending where
  label : String
  line : Nat
  implOk : Bool
  membership : Bool      -- a membership operation (for the all-or-nothing monitor)

structure TBDrv where
  hist : Nat := 0
  cfg : Meta := { maxSeat := 0, minPlayers := 2, rule := .default, mode := .ct }
  model : Option State := none
  lastObs : Option TBSpec.Obs := none
  pending : Option TBPending := none
  inBurst : Bool := false        -- between `burst-begin` and `burst-end`: operations linearised from a concurrent burst
  lastGate : Option (Nat × List TB.Part) := none   -- the gate as last observed (partial observations carry none)
  dead : Bool := false
  diverged : Bool := false     -- model and implementation have disagreed in this history: monitors only from here on
  mon : TBSpec.Mon := {}
  cnt : Counter := {}
  classes : Counter := {}
  mismatches : Nat := 0

/-- after a disagreement the model's state says nothing about the implementation any more; the property monitors, which
look only at the implementation's own answers and snapshots, go on to the end of the history -/
def TBDrv.kill (d : TBDrv) : TBDrv := { d with diverged := true, model := none, pending := none }

/-- monitor-only replay of one line (labels and outcomes are the implementation's) -/
def tbLineMon (d : TBDrv) (lineNo : Nat) (ts : List String) : TBDrv × List String :=
  let viol (d : TBDrv) (vs : List String) (ln : Nat) : TBDrv × List String :=
    ({ d with classes := vs.foldl (fun c v => c.bump v) d.classes },
     vs.map (fun c => s!"MONITOR {c} layer=tb hist={d.hist} line={ln}"))
  let (pre, post) := splitBar ts
  let op (label : String) (membership : Bool) (setPending : Bool := true) : TBDrv × List String :=
    let ok := post == ["ok"] || post.isEmpty
    ({ d with pending := if setPending then some { label := label, line := lineNo, implOk := ok, membership := membership } else d.pending,
              mon := TBSpec.noteOp d.mon label (pre ++ post.map (fun t => "res:" ++ t)) ok d.lastObs }, [])
  match pre with
  | "reserve" :: _ => op "reserve" true
  | "join" :: _ => op "join" true
  | "redeem" :: _ => op "redeem" true
  | "leave" :: _ => op "leave" true
  | "update" :: _ => op "update" true
  | "createjoin" :: _ => op "createjoin" true
  | ["blind", _] => op "blind" false
  | ["pause"] => op "pause" false
  | ["close"] => op "close" false
  | ["release"] => op "release" false
  | ["start"] => op "start" false
  | ["burst-begin"] => ({ d with inBurst := true }, [])
  | ["burst-end"] => ({ d with inBurst := false, pending := some { label := "burst-end", line := lineNo, implOk := true, membership := false } }, [])
  | ["autojoin"] => (d, [])
  | "setup" :: _ => op "setup" false
  | "finish" :: _ => op "finish" false (setPending := false)
  | "fire" :: _ =>
    let ms := post.headD "nothing"
    ({ d with pending := some { label := "fire." ++ ms, line := lineNo, implOk := true, membership := false },
              mon := TBSpec.noteOp d.mon ("fire." ++ ms) pre true d.lastObs }, [])
  | "retry" :: _ =>
    let ms := post.headD "nothing"
    ({ d with pending := some { label := "fire." ++ ms, line := lineNo, implOk := true, membership := false },
              mon := TBSpec.noteOp d.mon ("fire." ++ ms) pre true d.lastObs }, [])
  | "snap-opened" :: rest =>
    match parseTObs d.cfg rest with
    | some o =>
      let (mon', vs) := TBSpec.onOpenedSnap d.mon o
      viol { d with mon := mon' } vs lineNo
    | none => (d, [s!"BADLINE {lineNo} snap-opened"])
  | "opts" :: rest =>
    let (mon', vs) := TBSpec.onOpts d.mon rest
    viol { d with mon := mon' } vs lineNo
  | "settle" :: rest =>
    match ((kv rest "res").map commaList).bind (fun l => l.mapM (fun c => match c.splitOn ":" with
        | [a, b] => do pure ((← a.toNat?), (← b.toInt?))
        | _ => none)) with
    | some res =>
      ({ d with mon := TBSpec.noteSettle d.mon res, pending := some { label := "settle", line := lineNo, implOk := true, membership := false } }, [])
    | none => (d, [s!"BADLINE {lineNo}"])
  | "continue" :: _ =>
    let ms := post.headD "nothing"
    ({ d with pending := some { label := "continue." ++ ms, line := lineNo, implOk := true, membership := false },
              mon := TBSpec.noteOp d.mon ("continue." ++ ms) pre true d.lastObs }, [])
  | ["contreset"] => op "contreset" false
  | "tick" :: _ =>
    let ms := post.headD "nothing"
    ({ d with pending := some { label := "tick." ++ ms, line := lineNo, implOk := true, membership := false },
              mon := TBSpec.noteOp d.mon ("tick." ++ ms) pre true d.lastObs }, [])
  | "obs" :: rest =>
    match parseTObs d.cfg rest with
    | none => (d, [s!"BADLINE {lineNo} tb-obs"])
    | some o =>
      let p := d.pending.getD { label := "?", line := lineNo, implOk := true, membership := false }
      let (mon', vs) := TBSpec.onObs d.mon p.label p.implOk p.membership d.lastObs o
      let (d, out) := viol { d with mon := mon' } vs p.line
      ({ d with lastObs := some o, lastGate := (match o.gate with | some g => some g | none => d.lastGate), pending := none }, out)
  | _ => (d, [s!"BADLINE {lineNo} unknown-tb-op"])

def modeOf (s : String) : Mode := if s == "mtt" then .mtt else if s == "cash" then .cash else .ct

def tbLineCore (d : TBDrv) (lineNo : Nat) (ts : List String) : TBDrv × List String :=
  let mism (d : TBDrv) (msg : String) : TBDrv × List String :=
    ({ d.kill with mismatches := d.mismatches + 1 }, [s!"MISMATCH tb hist={d.hist} line={lineNo} {msg}"])
  let viol (d : TBDrv) (vs : List String) (ln : Nat) : TBDrv × List String :=
    ({ d with classes := vs.foldl (fun c v => c.bump v) d.classes },
     vs.map (fun c => s!"MONITOR {c} layer=tb hist={d.hist} line={ln}"))
  match ts with
  | "new" :: rest =>
    match kvNat rest "seats", kvNat rest "min", (kv rest "blind").bind parseBlind with
    | some n, some mn, some (some b) =>
      let cfg : Meta := { maxSeat := n, minPlayers := mn, rule := ruleOf ((kv rest "rule").getD "default"),
                          mode := modeOf ((kv rest "mode").getD "ct") }
      let h := (kvNat rest "h").getD (d.hist + 1)
      ({ d with hist := h, cfg := cfg, model := some (create cfg b), lastObs := none, pending := some { label := "new", line := lineNo, implOk := true, membership := false },
                dead := false, diverged := false, inBurst := false, lastGate := none, mon := {}, cnt := (d.cnt.bump "histories").bump s!"seats{n}" }, [])
    | _, _, _ => (d, [s!"BADLINE {lineNo} tb-new"])
  | "end" :: _ => ({ d with model := none, pending := none }, [])
  | "hang" :: _ =>
    let (d, o) := viol d ["C16.engine-hang"] lineNo
    ({ d with model := none, pending := none }, o)
  | "unsettled" :: _ =>
    -- every participant had answered, the backend returned the closed hand with its result, and no settlement followed
    let (d, o) := viol d ["C01.closed-hand-never-settled"] lineNo
    ({ d with model := none, pending := none, dead := true, cnt := d.cnt.bump "unsettled" }, o)
  | "abort" :: _ =>
    -- the harness dropped this history (the gate's 2 s timer fired while it was starved of CPU): nothing is judged
    ({ d with model := none, pending := none, dead := true, cnt := d.cnt.bump "dropped-by-harness" }, [])
  | "crash" :: rest =>
    -- the engine panicked in one of its own goroutines while this history ran (re-run alone, it panicked again)
    let (d, o) := viol d ["CRASH.engine-panic"] lineNo
    ({ d with model := none, pending := none, mismatches := d.mismatches + 1, cnt := d.cnt.bump "crashed" },
     [s!"MISMATCH tb hist={d.hist} line={lineNo} engine panicked: {" ".intercalate rest}"] ++ o)
  | _ =>
  if d.dead then (d, []) else
  if d.diverged then tbLineMon d lineNo ts else
  match d.model with
  | none => (d, [s!"BADLINE {lineNo} no-tb-history"])
  | some m =>
  let (pre, post) := splitBar ts
  let accept (label : String) (r : State × TB.Res) (membership : Bool) : TBDrv × List String :=
    let d := { d with cnt := (d.cnt.bump label).bump (label ++ (if r.2 == .ok then ".ok" else ".err")) }
    if tbResAgrees r.2 post then
      ({ d with model := some r.1, pending := some { label := label, line := lineNo, implOk := post == ["ok"], membership := membership },
                mon := TBSpec.noteOp d.mon label (pre ++ post.map (fun t => "res:" ++ t)) (post == ["ok"]) d.lastObs }, [])
    else mism d s!"op={label} model={String.intercalate " " (tbErrStr r.2)} impl={String.intercalate " " post}"
  let silent (label : String) (s' : State) : TBDrv × List String :=
    ({ d with model := some s', cnt := d.cnt.bump label,
              pending := some { label := label, line := lineNo, implOk := true, membership := false },
              mon := TBSpec.noteOp d.mon label pre true d.lastObs }, [])
  match pre with
  | "reserve" :: rest =>
    match kvNat rest "id", kvInt rest "chips", kvInt rest "seat" with
    | some id, some chips, some seat =>
      let ch := ((kv rest "ch").bind (·.toInt?)).map (fun c => [c]) |>.getD []
      -- the recorded draw must be one `RandomAssignSeats` could have made (the hypothesis `DrawsLegal` of C03_for_every_history)
      if (reserve m { id := id, chips := chips, seat := seat } ch).2 == .ok && !(decide (DrawLegal m (.reserve { id := id, chips := chips, seat := seat } ch))) then
        mism d s!"op=reserve recorded-seat-draw-not-legal ch={ch}"
      else
      accept "reserve" (reserve m { id := id, chips := chips, seat := seat } ch) true
    | _, _, _ => (d, [s!"BADLINE {lineNo}"])
  | "join" :: rest =>
    match kvNat rest "id" with
    | some id => accept "join" (join m id) true
    | none => (d, [s!"BADLINE {lineNo}"])
  | "redeem" :: rest =>
    match kvNat rest "id", kvInt rest "chips" with
    | some id, some chips => accept "redeem" (redeem m id chips) true
    | _, _ => (d, [s!"BADLINE {lineNo}"])
  | "leave" :: rest =>
    match (kv rest "ids").bind natList with
    | some ids => accept "leave" (batchRemove m ids) true
    | none => (d, [s!"BADLINE {lineNo}"])
  | "createjoin" :: rest =>
    -- the table was created with players (`TableSetting.JoinPlayers`): the model table is the one `tb new` made
    match (kv rest "joins").bind parseJoins, (kv rest "ch").bind intList with
    | some js, some ch =>
      if (createJoin m js ch).2 == .ok && !(decide (DrawLegal m (.update js [] ch))) then
        mism d s!"op=createjoin recorded-seat-draw-not-legal ch={ch}"
      else accept "createjoin" (createJoin m js ch) true
    | _, _ => (d, [s!"BADLINE {lineNo}"])
  | "update" :: rest =>
    match (kv rest "joins").bind parseJoins, (kv rest "leaves").bind natList, (kv rest "ch").bind intList with
    | some js, some lv, some ch =>
      -- a batch update that failed during a concurrent burst leaves no notification of its own (D20: its departures are
      -- applied silently); the linearisation can place it only by those departures, and whether and how its join half
      -- fails depends on where exactly it ran. The model applies what is known — the departures — and the state at the
      -- end of the burst is compared as a whole.
      if d.inBurst && post.head? == some "err" && !lv.isEmpty then
        let r := batchRemove m lv
        ({ d with model := some (if r.2 == .ok then r.1 else m), cnt := (d.cnt.bump "update").bump "update.burst-refusal",
                  pending := some { label := "update", line := lineNo, implOk := false, membership := true },
                  mon := TBSpec.noteOp d.mon "update" (pre ++ post.map (fun t => "res:" ++ t)) false d.lastObs }, [])
      else
      if (update m js lv ch).2 == .ok && !(decide (DrawLegal m (.update js lv ch))) then
        mism d s!"op=update recorded-seat-draw-not-legal ch={ch}"
      else accept "update" (update m js lv ch) true
    | _, _, _ => (d, [s!"BADLINE {lineNo}"])
  | ["blind", b] =>
    match parseBlind b with
    | some (some b) => silent "blind" (setBlind m b)
    | _ => (d, [s!"BADLINE {lineNo}"])
  | ["pause"] => silent "pause" (pause m)
  | ["close"] => silent "close" (close m)
  | ["release"] => silent "release" (release m)
  | ["burst-begin"] => ({ d with inBurst := true }, [])
  | ["burst-end"] => ({ d with inBurst := false, pending := some { label := "burst-end", line := lineNo, implOk := true, membership := false } }, [])
  | ["start"] => silent "start" (start m)
  | ["autojoin"] => ({ d with model := some (autoJoinStale m), cnt := d.cnt.bump "autojoin-stale" }, [])
  | "setup" :: rest =>
    match kvNat rest "gc", (kv rest "parts") with
    | some gc, some ps =>
      match (commaList ps).mapM (fun c => match c.splitOn ":" with
        | [a, b] => do pure ((← a.toNat?), (← b.toNat?))
        | _ => none) with
      | some parts => silent "setup" (setup m gc parts)
      | none => (d, [s!"BADLINE {lineNo}"])
    | _, _ => (d, [s!"BADLINE {lineNo}"])
  | "finish" :: rest =>
    match kvNat rest "id" with
    | some id =>
      let r := finish m id
      let d := { d with cnt := d.cnt.bump "finish" }
      if tbResAgrees r.2 post then ({ d with model := some r.1, mon := TBSpec.noteOp d.mon "finish" pre (post == ["ok"]) d.lastObs }, [])
      else mism d s!"op=finish model={String.intercalate " " (tbErrStr r.2)} impl={String.intercalate " " post}"
    | none => (d, [s!"BADLINE {lineNo}"])
  | "fire" :: rest =>
    match kvInt rest "ch", (kv rest "create").bind boolOf with
    | some ch, some createOk =>
      let choice : Option Int := if ch == -1 then none else some ch
      let needsChoice := !m.sm.isInit
      let r := gateFire m (if needsChoice then choice else none) createOk
      let ms := match r.2 with | .opened => "opened" | .refused => "refused" | .nothing => "nothing" | .startFailed => "startfailed" | .panic => "panic"
      let d := { d with cnt := (d.cnt.bump "fire").bump ("fire." ++ ms) }
      if post == [ms] then
        if needsChoice && ms == "opened" && !(SM.legalInitChoice m.sm choice) then mism d s!"op=fire illegal-first-seat={ch}"
        else ({ d with model := some r.1, pending := some { label := "fire." ++ ms, line := lineNo, implOk := true, membership := false },
                       mon := TBSpec.noteOp d.mon ("fire." ++ ms) pre true d.lastObs }, [])
      else mism d s!"op=fire model={ms} impl={String.intercalate " " post}"
    | _, _ => (d, [s!"BADLINE {lineNo}"])
  | "retry" :: rest =>
    -- a turn of tableGameOpen's retry loop, 3 s after a refused attempt (the engine lock held all the while)
    match kvInt rest "ch", (kv rest "create").bind boolOf with
    | some ch, some createOk =>
      let choice : Option Int := if ch == -1 then none else some ch
      let needsChoice := !m.sm.isInit
      let r := retryOpen m (if needsChoice then choice else none) createOk
      let ms := match r.2 with | .opened => "opened" | .refused => "refused" | .nothing => "nothing" | .startFailed => "startfailed" | .panic => "panic"
      let d := { d with cnt := (d.cnt.bump "retry").bump ("retry." ++ ms) }
      if post == [ms] then
        if needsChoice && ms == "opened" && !(SM.legalInitChoice m.sm choice) then mism d s!"op=retry illegal-first-seat={ch}"
        else ({ d with model := some r.1, pending := some { label := "fire." ++ ms, line := lineNo, implOk := true, membership := false },
                       mon := TBSpec.noteOp d.mon ("fire." ++ ms) pre true d.lastObs }, [])
      else mism d s!"op=retry model={ms} impl={String.intercalate " " post}"
    | _, _ => (d, [s!"BADLINE {lineNo}"])
  | "snap-opened" :: rest =>
    match parseTObs d.cfg rest with
    | some o =>
      let (mon', vs) := TBSpec.onOpenedSnap d.mon o
      let (d, out) := viol { d with mon := mon' } vs lineNo
      (d, out)
    | none => (d, [s!"BADLINE {lineNo} snap-opened"])
  | "opts" :: rest =>
    let (mon', vs) := TBSpec.onOpts d.mon rest
    -- correspondence: the model's prediction of what the backend receives
    let implPs := match rest.findSome? (fun t => match t.splitOn "=" with | ["players", b] => some b | _ => none) with
      | some b => TBSpec.parseOptsPlayers b | none => []
    let implBlind := match rest.findSome? (fun t => match t.splitOn "=" with | ["blind", b] => some b | _ => none) with
      | some b => (b.splitOn ",").filterMap (·.toInt?) | none => []
    let implAnte := (TBSpec.argInt rest "ante").getD (-999)
    let modelBlind := match m.gameBlind with | some b => (b.ante, [b.dealer, b.sb, b.bb]) | none => (-998, [])
    if handOptions m == implPs && modelBlind == (implAnte, implBlind) then viol { d with mon := mon' } vs lineNo
    else
      let (d2, o2) := viol { d with mon := mon' } vs lineNo
      let (d3, o3) := mism d2 s!"op=create-game-options model={repr (handOptions m)} impl={repr implPs}"
      (d3, o2 ++ o3)
  | "settle" :: rest =>
    match (kv rest "res") with
    | some rs =>
      match (commaList rs).mapM (fun c => match c.splitOn ":" with
        | [a, b] => do pure ((← a.toNat?), (← b.toInt?))
        | _ => none) with
      | some res =>
        let r := settle m res
        let d := { d with cnt := d.cnt.bump "settle", mon := TBSpec.noteSettle d.mon res }
        if tbResAgrees r.2 post then
          ({ d with model := some r.1, pending := some { label := "settle", line := lineNo, implOk := true, membership := false } }, [])
        else mism d s!"op=settle model={String.intercalate " " (tbErrStr r.2)} impl={String.intercalate " " post}"
      | none => (d, [s!"BADLINE {lineNo}"])
    | none => (d, [s!"BADLINE {lineNo}"])
  | "continue" :: rest =>
    match (kv rest "expired").bind boolOf with
    | some ex =>
      let r := continueGame m ex
      let ms := match r.2 with | .paused => "paused" | .setUp => "setup" | .nothing => "nothing" | .failed => "failed"
      let d := { d with cnt := (d.cnt.bump "continue").bump ("continue." ++ ms) }
      if post == [ms] then
        ({ d with model := some r.1, pending := some { label := "continue." ++ ms, line := lineNo, implOk := true, membership := false },
                  mon := TBSpec.noteOp d.mon ("continue." ++ ms) pre true d.lastObs }, [])
      else mism d s!"op=continue model={ms} impl={String.intercalate " " post}"
    | none => (d, [s!"BADLINE {lineNo}"])
  -- with a continue interval: continueGame up to arming the timer …
  | ["contreset"] => silent "contreset" (step m .contReset)
  -- … and the delayed handler, after whatever was called in between
  | "tick" :: rest =>
    match (kv rest "expired").bind boolOf with
    | some ex =>
      let r := nextMove m ex
      let ms := match r.2 with | .paused => "paused" | .setUp => "setup" | .nothing => "nothing" | .failed => "failed"
      let d := { d with cnt := (d.cnt.bump "tick").bump ("tick." ++ ms) }
      if post == [ms] then
        ({ d with model := some r.1, pending := some { label := "tick." ++ ms, line := lineNo, implOk := true, membership := false },
                  mon := TBSpec.noteOp d.mon ("tick." ++ ms) pre true d.lastObs }, [])
      else mism d s!"op=tick model={ms} impl={String.intercalate " " post}"
    | none => (d, [s!"BADLINE {lineNo}"])
  | "obs" :: rest =>
    match parseTObs d.cfg rest with
    | none => (d, [s!"BADLINE {lineNo} tb-obs"])
    | some o =>
      let p := d.pending.getD { label := "?", line := lineNo, implOk := true, membership := false }
      -- 1. correspondence
      let out1 := match diffObs m o with
        | none => []
        | some f => [s!"MISMATCH tb hist={d.hist} line={p.line} after={p.label} field={f} model=[{renderModel m}]"]
      -- The open-game manager has no lock: the harness can read its state while the continue handler is inside Setup
      -- (game count written, participant map not yet replaced), and then sees the new count with the previous hand's
      -- participants, all ready. Same count, same participants, everybody ready right after a set-up is that torn read
      -- (or the gate's own stale-completion race, finding D18 of C09): the history is dropped, not judged.
      let gateRace := out1 != [] && p.label == "continue.setup" &&
        (match o.gate with
         | some (gc, ps) => m.gateCount == gc && !ps.isEmpty && ps.all (·.ready) &&
             m.gate.all (fun r => !r.ready) &&
             -- the participants shown are the new set-up's (already marked ready: D18) or still the previous gate's
             ((ps.all (fun q => m.gate.any (fun r => r.id == q.id && r.idx == q.idx)) && m.gate.length == ps.length) ||
              (match d.lastGate with
               | some (_, old) => old.map (fun q => (q.id, q.idx)) == ps.map (fun q => (q.id, q.idx))
               | none => false)) &&
             diffObs { m with gate := ps } o == none
         | none => false)
      if gateRace then
        ({ d with dead := true, model := none, pending := none, cnt := d.cnt.bump "dropped-torn-gate-observation" }, [])
      else
      -- 2. monitors on the implementation's snapshot
      let (mon', vs) := TBSpec.onObs d.mon p.label p.implOk p.membership d.lastObs o
      let d := if mon'.lcJudged > d.mon.lcJudged then { d with cnt := d.cnt.bump "life-cycle-steps-judged" } else d
      let (d, out2) := viol { d with mon := mon' } vs p.line
      if out1.isEmpty then
        ({ d with model := some (TB.normalize m), lastObs := some o, lastGate := (match o.gate with | some g => some g | none => d.lastGate), pending := none }, out2)
      else ({ d.kill with mismatches := d.mismatches + 1, lastObs := some o }, out1 ++ out2)
  | _ => (d, [s!"BADLINE {lineNo} unknown-tb-op"])

/-- one trace line; a line on which model and implementation part ways is still shown to the monitors -/
def tbLine (d : TBDrv) (lineNo : Nat) (ts : List String) : TBDrv × List String :=
  let (d', out) := tbLineCore d lineNo ts
  if !d.diverged && d'.diverged && !d'.dead && ts.head? != some "obs" && ts.head? != some "opts" && ts.head? != some "crash" then
    let (d'', out2) := tbLineMon d' lineNo ts
    (d'', out ++ out2)
  else (d', out)

def TBDrv.summary (d : TBDrv) : List String :=
  [s!"SUMMARY tb mismatches={d.mismatches} {d.cnt.render}", s!"CLASSES tb {d.classes.render}"]

end Drv
