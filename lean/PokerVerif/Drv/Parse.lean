/-! Line-protocol parsing helpers for the correspondence driver (core Lean only). -/
namespace Drv

def toks (line : String) : List String :=
  (line.trimAscii.toString.splitOn " ").filter (· ≠ "")

/-- split `a,b,c` ("-" or "" = empty list) -/
def commaList (s : String) : List String :=
  if s == "-" || s == "" then [] else s.splitOn ","

def natList (s : String) : Option (List Nat) := (commaList s).mapM (·.toNat?)
def intList (s : String) : Option (List Int) := (commaList s).mapM (·.toInt?)

def boolOf (s : String) : Option Bool :=
  if s == "1" then some true else if s == "0" then some false else none

/-- `k=v` lookup among tokens -/
def kv (ts : List String) (key : String) : Option String :=
  ts.findSome? (fun t => match t.splitOn "=" with
    | [k, v] => if k == key then some v else none
    | _ => none)

def kvNat (ts : List String) (key : String) : Option Nat := (kv ts key).bind (·.toNat?)
def kvInt (ts : List String) (key : String) : Option Int := (kv ts key).bind (·.toInt?)

/-- tokens before and after the `|` separator (inputs | implementation's observed result) -/
def splitBar (ts : List String) : List String × List String :=
  let pre := ts.takeWhile (· ≠ "|")
  let post := (ts.dropWhile (· ≠ "|")).drop 1
  (pre, post)

def b2s (b : Bool) : String := if b then "1" else "0"

structure Counter where
  entries : List (String × Nat) := []

def Counter.bump (c : Counter) (k : String) (n : Nat := 1) : Counter :=
  if c.entries.any (·.1 == k) then
    { entries := c.entries.map (fun e => if e.1 == k then (e.1, e.2 + n) else e) }
  else { entries := c.entries ++ [(k, n)] }

def Counter.render (c : Counter) : String :=
  String.intercalate " " (c.entries.map (fun e => s!"{e.1}={e.2}"))

end Drv
