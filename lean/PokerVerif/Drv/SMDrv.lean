import PokerVerif.SM
import PokerVerif.SMSpec
import PokerVerif.Drv.Parse
/-! Replay of seat-manager traces: model vs. implementation, plus the C03/C04/C05 monitors on the
implementation's own observed states. -/
namespace Drv
open SM

def ruleOf (s : String) : Rule :=
  if s == "default" then .default else if s == "short_deck" then .shortDeck else .other

def errName : Err → String
  | .notEnoughSeats => "notEnoughSeats" | .playerNotFound => "playerNotFound"
  | .unavailableSeat => "unavailableSeat" | .dupPlayers => "dupPlayers" | .dupSeats => "dupSeats"
  | .seatTaken => "seatTaken" | .unableInit => "unableInit" | .alreadyInit => "alreadyInit"
  | .unableRotate => "unableRotate"

def resStr : Res → String
  | .ok => "ok"
  | .err l => "err " ++ String.intercalate "/" (l.map errName)

/-- does the implementation's reported result (`ok` | `err <name>`) agree with the model's? -/
def resAgrees (m : Res) (impl : List String) : Bool :=
  match m, impl with
  | .ok, ["ok"] => true
  | .err l, ["err", n] => l.any (fun e => errName e == n)
  | _, _ => false

def parseSeatCell (s : String) : Option (Option SeatPlayer) :=
  if s == "-" then some none
  else match s.splitOn ":" with
    | [a, b, c, d] => do
      let id ← a.toNat?
      let isIn ← boolOf b
      let btw ← boolOf c
      let chips ← boolOf d
      pure (some { id := id, isIn := isIn, between := btw, hasChips := chips })
    | _ => none

def seatsOfTable (tbl : List (Option SeatPlayer)) : Seats :=
  fun i => if 0 ≤ i then tbl.getD i.toNat none else none

/-- `D SB BB init cells` -/
def parseObs (maxSeat : Nat) (rule : Rule) (ts : List String) : Option State :=
  match ts with
  | [d, sb, bb, ini, cells] => do
    let d ← d.toInt?
    let sb ← sb.toInt?
    let bb ← bb.toInt?
    let ini ← boolOf ini
    let tbl ← (cells.splitOn ",").mapM parseSeatCell
    if tbl.length != maxSeat then none
    else pure { maxSeat := maxSeat, seats := seatsOfTable tbl, dealer := d, sb := sb, bb := bb, rule := rule, isInit := ini }
  | _ => none

def renderSeats (st : State) : String :=
  String.intercalate "," ((SMSpec.seatsList st.maxSeat).map (fun i =>
    match st.seats i with
    | none => "-"
    | some p => s!"{p.id}:{b2s p.isIn}:{b2s p.between}:{b2s p.hasChips}"))

def renderState (st : State) : String :=
  s!"{st.dealer} {st.sb} {st.bb} {b2s st.isInit} {renderSeats st}"

def parsePairs (s : String) : Option (List (Nat × Int)) :=
  (commaList s).mapM (fun c => match c.splitOn ":" with
    | [a, b] => do pure ((← a.toNat?), (← b.toInt?))
    | _ => none)

inductive SMOpKind | assign | rand | remove | join | chips | init | rotate
deriving DecidableEq, Repr

structure SMPending where
  kind : SMOpKind
  modelPost : State
  implOk : Bool
  line : Nat

structure SMDrv where
  hist : Nat := 0
  model : Option State := none       -- model state (none = no live history)
  lastObs : Option State := none     -- implementation's last observed state
  pending : Option SMPending := none
  dead : Bool := false
  cnt : Counter := {}
  classes : Counter := {}            -- monitor failure classes seen
  mismatches : Nat := 0

def SMDrv.kill (d : SMDrv) : SMDrv := { d with dead := true, pending := none }

/-- one trace line (tokens after the leading `sm`) -/
def smLine (d : SMDrv) (lineNo : Nat) (ts : List String) : SMDrv × List String :=
  match ts with
  | "new" :: n :: rule :: rest =>
    match n.toNat? with
    | none => (d, [s!"BADLINE {lineNo}"])
    | some n =>
      let st := State.new n (ruleOf rule)
      let h := (kvNat rest "h").getD (d.hist + 1)
      ({ d with hist := h, model := some st, lastObs := some st, pending := none, dead := false,
                cnt := (d.cnt.bump "histories").bump s!"seats{n}" }, [])
  | "end" :: _ => ({ d with model := none, pending := none }, [])
  | _ =>
  if d.dead then (d, []) else
  match d.model with
  | none => (d, [s!"BADLINE {lineNo} no-history"])
  | some m =>
  let (pre, post) := splitBar ts
  let mutate (kind : SMOpKind) (r : State × Res) (label : String) : SMDrv × List String :=
    let d := { d with cnt := d.cnt.bump label }
    if resAgrees r.2 post then
      ({ d with pending := some { kind := kind, modelPost := r.1, implOk := post == ["ok"], line := lineNo },
                cnt := d.cnt.bump (label ++ (if r.2.isOk then ".ok" else ".err")) }, [])
    else
      ({ d.kill with mismatches := d.mismatches + 1 },
       [s!"MISMATCH sm hist={d.hist} line={lineNo} op={label} model={resStr r.2} impl={String.intercalate " " post}"])
  match pre with
  | ["assign", batch] =>
    match parsePairs batch with
    | some b => mutate .assign (assign m b) "assign"
    | none => (d, [s!"BADLINE {lineNo}"])
  | ["rand", ids, choice] =>
    match natList ids, intList choice with
    | some ids, some ch =>
      if post == ["ok"] && !(legalChoice m ids ch) then
        ({ d.kill with mismatches := d.mismatches + 1 },
         [s!"MISMATCH sm hist={d.hist} line={lineNo} op=rand illegal-choice={choice}"])
      else mutate .rand (randomAssign m ids ch) "rand"
    | _, _ => (d, [s!"BADLINE {lineNo}"])
  | ["remove", ids] =>
    match natList ids with
    | some ids => mutate .remove (remove m ids) "remove"
    | none => (d, [s!"BADLINE {lineNo}"])
  | ["join", ids] =>
    match natList ids with
    | some ids => mutate .join (join m ids) "join"
    | none => (d, [s!"BADLINE {lineNo}"])
  | ["chips", id, b] =>
    match id.toNat?, boolOf b with
    | some id, some b => mutate .chips (setChips m id b) "chips"
    | _, _ => (d, [s!"BADLINE {lineNo}"])
  | ["init", rnd, choice] =>
    -- choice: the seat the implementation's shuffle put first, read off its post-state by the harness
    match boolOf rnd, choice.toInt? with
    | some rnd, some c =>
      let ch : Option Int := if rnd && c != -1 then some c else none
      if post == ["ok"] && !(legalInitChoice m ch) then
        ({ d.kill with mismatches := d.mismatches + 1 },
         [s!"MISMATCH sm hist={d.hist} line={lineNo} op=init illegal-choice={choice}"])
      else mutate .init (init m ch) "init"
    | _, _ => (d, [s!"BADLINE {lineNo}"])
  | ["rotate"] => mutate .rotate (rotate m) "rotate"
  | ["between", id] =>
    match id.toNat? with
    | some id =>
      let mv := b2s (playerBetween m id)
      if post == [mv] then ({ d with cnt := d.cnt.bump "q.between" }, [])
      else ({ d.kill with mismatches := d.mismatches + 1 },
            [s!"MISMATCH sm hist={d.hist} line={lineNo} op=between model={mv} impl={String.intercalate " " post}"])
    | none => (d, [s!"BADLINE {lineNo}"])
  | ["active", id] =>
    match id.toNat? with
    | some id =>
      let mv := match isActive m id with | none => "nf" | some b => b2s b
      if post == [mv] then ({ d with cnt := d.cnt.bump "q.active" }, [])
      else ({ d.kill with mismatches := d.mismatches + 1 },
            [s!"MISMATCH sm hist={d.hist} line={lineNo} op=active model={mv} impl={String.intercalate " " post}"])
    | none => (d, [s!"BADLINE {lineNo}"])
  | ["seatid", id] =>
    match id.toNat? with
    | some id =>
      let mv := toString (seatOf m id)
      if post == [mv] then ({ d with cnt := d.cnt.bump "q.seatid" }, [])
      else ({ d.kill with mismatches := d.mismatches + 1 },
            [s!"MISMATCH sm hist={d.hist} line={lineNo} op=seatid model={mv} impl={String.intercalate " " post}"])
    | none => (d, [s!"BADLINE {lineNo}"])
  | "obs" :: rest =>
    match parseObs m.maxSeat m.rule rest, d.pending, d.lastObs with
    | some obs, some p, some prev =>
      -- 1. correspondence: the model's post-state equals the implementation's
      let out1 := if SMSpec.sameState p.modelPost obs then []
        else [s!"MISMATCH sm hist={d.hist} line={p.line} state model=[{renderState p.modelPost}] impl=[{renderState obs}]"]
      -- 2. monitors on the implementation's own states
      let viol : List String :=
        (if SMSpec.idsDistinct obs then [] else ["C03.sm-player-on-two-seats"]) ++
        (match p.kind with
         | .rotate => SMSpec.rotateViolations prev obs p.implOk
         | .init => SMSpec.initViolations prev obs p.implOk
         | .assign | .rand | .remove | .join | .chips =>
           if SMSpec.atomicOK prev obs p.implOk then [] else ["C03.sm-failed-op-changed-state"])
      let out2 := viol.map (fun c => s!"MONITOR {c} layer=sm hist={d.hist} line={p.line}")
      let classes := viol.foldl (fun c v => c.bump v) d.classes
      let cnt := match p.kind with
        | .rotate =>
          if p.implOk then
            let n := SMSpec.dealtIn obs
            let c := d.cnt.bump (if n == 2 then "rotate.hu" else "rotate.ring")
            let c := if isHU prev && n > 2 then c.bump "rotate.hu-to-ring" else c
            let c := if !(activeAt obs.seats obs.dealer) && n > 2 then c.bump "rotate.dead-button" else c
            if !(activeAt obs.seats obs.sb) && n > 2 then c.bump "rotate.dead-sb" else c
          else d.cnt
        | _ => d.cnt
      if out1.isEmpty then
        ({ d with model := some (normalize p.modelPost), lastObs := some obs, pending := none, classes := classes, cnt := cnt },
         out2)
      else
        ({ d.kill with mismatches := d.mismatches + 1, classes := classes, cnt := cnt }, out1 ++ out2)
    | none, _, _ => (d, [s!"BADLINE {lineNo} obs"])
    | _, _, _ => (d, [s!"BADLINE {lineNo} obs-without-op"])
  | _ => (d, [s!"BADLINE {lineNo} unknown-sm-op"])

def SMDrv.summary (d : SMDrv) : List String :=
  [s!"SUMMARY sm mismatches={d.mismatches} {d.cnt.render}", s!"CLASSES sm {d.classes.render}"]

end Drv
