import PokerVerif.OGM
import PokerVerif.Drv.Parse
/-! Replay of open-game-gate traces (quiescent regime): `OGM` model vs. implementation, plus the C09 monitors. -/
namespace Drv
open OGM

def parseOParts (s : String) : Option (List (Nat × Int × Bool)) :=
  (commaList s).mapM (fun c => match c.splitOn ":" with
    | [a, b, r] => do pure ((← a.toNat?), (← b.toInt?), (← boolOf r))
    | _ => none)

def parseSetupParts (s : String) : Option (List (Nat × Int)) :=
  (commaList s).mapM (fun c => match c.splitOn ":" with
    | [a, b] => do pure ((← a.toNat?), (← b.toInt?))
    | _ => none)

def partsKey (ps : List (Nat × Int × Bool)) : List (Nat × Int × Bool) :=
  -- canonical order: by id (insertion sort; lists are tiny)
  ps.foldl (fun acc p =>
    let (lo, hi) := acc.span (fun q => q.1 ≤ p.1)
    lo ++ [p] ++ hi) []

def modelParts (s : St) : List (Nat × Int × Bool) := partsKey (s.parts.map (fun p => (p.id, p.idx, p.ready)))

def parseFires (s : String) : Option (List (Nat × List (Nat × Int × Bool))) :=
  if s == "-" then some []
  else (s.splitOn ";").mapM (fun f => match f.splitOn "/" with
    | [gc, ps] => do pure ((← gc.toNat?), partsKey (← parseOParts ps))
    | _ => none)

structure OGMDrv where
  hist : Nat := 0
  model : Option St := none
  firedSeen : Nat := 0            -- how many entries of the model's `fired` have been compared
  dead : Bool := false
  diverged : Bool := false        -- model and implementation have disagreed in this history (reported once); monitors go on
  pendingOp : String := ""
  pendingLine : Nat := 0
  -- monitor memory (about the implementation)
  curIds : List Nat := []
  curGc : Nat := 0
  idxDistinct : Bool := true
  signalled : List Nat := []
  timedOut : Bool := false
  firesThisSetup : Nat := 0
  lastParts : List (Nat × Int × Bool) := []
  lastOpUnknown : Bool := false
  lastOpRepeat : Bool := false
  rebuiltAllReady : Bool := false   -- the gate was rebuilt from a state in which everybody was ready already
  cnt : Counter := {}
  classes : Counter := {}
  mismatches : Nat := 0

def nodupI : List Int → Bool
  | [] => true
  | h :: t => !(t.contains h) && nodupI t

def ogmLine (d : OGMDrv) (lineNo : Nat) (ts : List String) : OGMDrv × List String :=
  let mism (d : OGMDrv) (msg : String) : OGMDrv × List String :=
    if d.diverged then (d, [])
    else ({ d with diverged := true, mismatches := d.mismatches + 1 }, [s!"MISMATCH ogm hist={d.hist} line={lineNo} {msg}"])
  match ts with
  | "new" :: rest =>
    let h := (kvNat rest "h").getD (d.hist + 1)
    ({ d with hist := h, model := some {}, firedSeen := 0, dead := false, diverged := false, curIds := [], curGc := 0, idxDistinct := true,
              signalled := [], timedOut := false, firesThisSetup := 0, lastParts := [], pendingOp := "new", pendingLine := lineNo,
              cnt := d.cnt.bump "histories" }, [])
  | "end" :: _ => ({ d with model := none }, [])
  | "anomaly" :: cls :: _ =>
    ({ d with classes := d.classes.bump cls, cnt := d.cnt.bump "stress-anomalies" }, [s!"MONITOR {cls} layer=ogm hist=stress line={lineNo}"])
  | _ =>
  if d.dead then (d, []) else
  match d.model with
  | none => (d, [s!"BADLINE {lineNo} no-ogm-history"])
  | some m =>
  let (pre, post) := splitBar ts
  match pre with
  | "setup" :: rest =>
    match kvNat rest "gc", (kv rest "parts").bind parseSetupParts with
    | some gc, some ps =>
      ({ d with model := some (drain (step m (.setup gc ps))), pendingOp := "setup", pendingLine := lineNo,
                curIds := ps.map (·.1), curGc := gc, idxDistinct := nodupI (ps.map (·.2)), signalled := [], timedOut := false,
                firesThisSetup := 0, lastOpUnknown := false, lastOpRepeat := false, rebuiltAllReady := false,
                cnt := d.cnt.bump "setup" }, [])
    | _, _ => (d, [s!"BADLINE {lineNo}"])
  | "ready" :: rest =>
    match kvNat rest "id" with
    | some id =>
      let known := knows m id
      let want := if known then ["ok"] else ["err", "notfound"]
      let d := { d with cnt := d.cnt.bump (if known then "ready" else "ready.unknown") }
      -- the property itself, on the implementation's answer: a signal from somebody the current set-up does not name is rejected
      let vUnknown := if !(d.curIds.contains id) && post == ["ok"] then ["C09.signal-from-an-unknown-participant-accepted"] else []
      let outV := vUnknown.map (fun c => s!"MONITOR {c} layer=ogm hist={d.hist} line={lineNo}")
      let d := { d with classes := vUnknown.foldl (fun c v => c.bump v) d.classes }
      let (d, outM) := if post != want then mism d s!"op=ready model={String.intercalate " " want} impl={String.intercalate " " post}" else (d, [])
      ({ d with model := some (drain (step m (.ready id))), pendingOp := "ready", pendingLine := lineNo,
                lastOpUnknown := !(d.curIds.contains id), lastOpRepeat := d.signalled.contains id,
                signalled := if d.curIds.contains id then id :: d.signalled else d.signalled }, outM ++ outV)
    | none => (d, [s!"BADLINE {lineNo}"])
  | ["timeout"] =>
    ({ d with model := some (drain (step m .timeout)), pendingOp := "timeout", pendingLine := lineNo, timedOut := true,
              lastOpUnknown := false, lastOpRepeat := false, cnt := d.cnt.bump "timeout" }, [])
  | "fromstate" :: rest =>
    match kvNat rest "gc", (kv rest "parts").bind parseOParts with
    | some gc, some ps =>
      ({ d with model := some (step m (.fromState gc ps)), firedSeen := 0, pendingOp := "fromstate", pendingLine := lineNo,
                lastOpUnknown := false, lastOpRepeat := false, cnt := d.cnt.bump "fromstate",
                rebuiltAllReady := !ps.isEmpty && ps.all (·.2.2), firesThisSetup := 0 }, [])
    | _, _ => (d, [s!"BADLINE {lineNo}"])
  | "obs" :: rest =>
    match kvNat rest "gc", (kv rest "parts").bind parseOParts, (kv rest "fired").bind parseFires with
    | some gc, some ps, some fires =>
      let ps := partsKey ps
      -- 1. correspondence
      let mFires := (m.fired.drop d.firedSeen).map (fun e => (e.1, partsKey (e.2.map (fun p => (p.id, p.idx, p.ready)))))
      let out1 :=
        if m.gameCount != gc then [s!"MISMATCH ogm hist={d.hist} line={d.pendingLine} after={d.pendingOp} field=gameCount model={m.gameCount} impl={gc}"]
        else if modelParts m != ps then [s!"MISMATCH ogm hist={d.hist} line={d.pendingLine} after={d.pendingOp} field=participants model={repr (modelParts m)} impl={repr ps}"]
        else if mFires != fires then [s!"MISMATCH ogm hist={d.hist} line={d.pendingLine} after={d.pendingOp} field=fired model={repr mFires} impl={repr fires}"]
        else []
      -- 2. monitors on what the implementation did
      let n := d.firesThisSetup + fires.length
      let viol : List String :=
        (if !fires.isEmpty && d.rebuiltAllReady then ["C09.rebuilt-all-ready-gate-fires-on-a-repeated-signal"]
         else if !fires.isEmpty && n > 1 then ["C09.fired-more-than-once-for-one-setup"] else []) ++
        (fires.foldl (fun acc f =>
          let idsOK := (f.2.map (·.1)) == (partsKey (d.curIds.map (fun i => (i, (0 : Int), false)))).map (·.1)
          acc ++
          (if f.1 == d.curGc && idsOK && f.2.all (·.2.2) then [] else ["C09.fire-does-not-report-the-current-setup-all-ready"]) ++
          (if d.timedOut || d.curIds.all (fun i => d.signalled.contains i) then []
           else if !d.idxDistinct then ["C09.fired-before-everybody-signalled.shared-index"]
           else ["C09.fired-before-everybody-signalled"])) []) ++
        -- liveness: everybody named by the current set-up has signalled (distinct indexes, quiescent regime) — the
        -- completion has run by now
        (if d.pendingOp == "ready" && !d.curIds.isEmpty && d.idxDistinct && !d.rebuiltAllReady &&
            d.curIds.all (fun i => d.signalled.contains i) && n == 0
         then ["C09.no-completion-although-everybody-signalled"] else []) ++
        (if d.pendingOp == "setup" && !d.rebuiltAllReady &&
            (ps.map (·.1)) != (partsKey (d.curIds.map (fun i => (i, (0 : Int), false)))).map (·.1)
         then ["C09.gate-state-does-not-name-exactly-the-participants-of-the-set-up"] else []) ++
        (if d.pendingOp == "setup" && ps.any (·.2.2) then ["C09.participant-shown-ready-before-signalling"] else []) ++
        (if d.pendingOp == "ready" && d.lastOpUnknown && (ps != d.lastParts || !fires.isEmpty) then ["C09.unknown-signal-changed-the-gate"] else []) ++
        (if d.pendingOp == "ready" && d.lastOpRepeat && ps != d.lastParts then ["C09.repeated-signal-changed-the-gate"] else [])
      let out2 := viol.map (fun c => s!"MONITOR {c} layer=ogm hist={d.hist} line={d.pendingLine}")
      let d := { d with classes := viol.foldl (fun c v => c.bump v) d.classes, firesThisSetup := n, lastParts := ps,
                        firedSeen := m.fired.length, cnt := d.cnt.bump "fires" fires.length }
      if out1.isEmpty || d.diverged then (d, out2) else ({ d with diverged := true, mismatches := d.mismatches + 1 }, out1 ++ out2)
    | _, _, _ => (d, [s!"BADLINE {lineNo} ogm-obs"])
  | _ => (d, [s!"BADLINE {lineNo} unknown-ogm-op"])

def OGMDrv.summary (d : OGMDrv) : List String :=
  [s!"SUMMARY ogm mismatches={d.mismatches} {d.cnt.render}", s!"CLASSES ogm {d.classes.render}"]

end Drv
