import PokerVerif.HD
import PokerVerif.Drv.Parse
/-! Replay of hand-level traces: `HD` model vs. implementation, plus the monitors of C10 C11 C13 C14 C15 and of the
pokerface contracts (`PF.wf`, `PF.accepts`). -/
namespace Drv
open HD

def dashList (s : String) (sep : String) : List String := if s == "-" || s == "" then [] else s.splitOn sep

def parsePView (s : String) : Option PView :=
  match s.splitOn ";" with
  | [idx, pos, acted, did, fold, allowed, bank, ini, stack, wager, pot] => do
    pure { idx := (← idx.toNat?), positions := dashList pos "+", acted := (← boolOf acted), did := if did == "-" then "" else did,
           fold := (← boolOf fold), allowed := dashList allowed "+", bankroll := (← bank.toInt?), init := (← ini.toInt?),
           stack := (← stack.toInt?), wager := (← wager.toInt?), pot := (← pot.toInt?) }
  | _ => none

def parseView (ts : List String) : Option View := do
  let blind ← (kv ts "blind").bind intList
  let (bd, bs, bb) ← match blind with | [a, b, c] => some (a, b, c) | _ => none
  let round := (kv ts "round").getD "-"
  pure { stamp := (← kvNat ts "at"), gid := (← kvNat ts "gid"), event := (← kv ts "ev"), round := if round == "-" then "" else round,
         cur := (← kvInt ts "cur"), raiser := (← kvInt ts "raiser"), wager := (← kvInt ts "wager"), mini := (← kvInt ts "mini"),
         prev := (← kvInt ts "prev"), ante := (← kvInt ts "ante"), bDealer := bd, bSB := bs, bBB := bb,
         hasResult := (← (kv ts "res").bind boolOf),
         players := (← ((kv ts "players").getD "").splitOn "|" |>.mapM parsePView) }

def flagBits (s : String) : Option (List Bool) := s.toList.mapM (fun c => if c == '1' then some true else if c == '0' then some false else none)

def parseStats (s : String) : Option (List (Nat × Stats)) :=
  (dashList s ";").mapM (fun c => match c.splitOn ":" with
    | [pid, a, r, ca, chk, f, fr, bits] => do
      let b ← flagBits bits
      let pidN ← pid.toNat?
      let aN ← a.toNat?
      let rN ← r.toNat?
      let caN ← ca.toNat?
      let chN ← chk.toNat?
      let fB ← boolOf f
      match b with
      | [vc, v, pc, p, ac, ats1, tc, t, fc, f3, crc, cr, cbc, cb, fcc, fcb, sc, sd] =>
        let st : Stats := {
          actionTimes := aN, raiseTimes := rN, callTimes := caN, checkTimes := chN,
          isFold := fB, foldRound := (if fr == "-" then "" else fr),
          vpipC := vc, vpip := v, pfrC := pc, pfr := p, atsC := ac, ats := ats1, b3C := tc, b3 := t, ft3bC := fc, ft3b := f3,
          crC := crc, cr := cr, cbC := cbc, cb := cb, ftcbC := fcc, ftcb := fcb, sdC := sc, sd := sd }
        pure (pidN, st)
      | _ => none
    | _ => none)

def parseLast (s : String) : Option (Option Last) :=
  if s == "-" then some none
  else match s.splitOn ":" with
    | [id, seat, action, round, chips, gc, gid] => do
      pure (some { id := (← id.toNat?), seat := (← seat.toInt?), action := action, round := if round == "-" then "" else round,
                   chips := (← chips.toInt?), gc := (← gc.toNat?), gid := (← gid.toNat?) })
    | _ => none

def maskSD (s : Stats) : Stats := { s with sdC := false, sd := false }

def errClass : Err → String
  | .invalidGameAction => "invalidGameAction" | .playerNotFound => "playerNotFound" | .gamePlayerNotFound => "gamePlayerNotFound"
  | .gameInvalidAction => "gameInvalidAction" | .gameUnknownEvent => "gameUnknownEvent" | .backend => "backend"

def implErrClass (post : List String) : String :=
  match post with
  | ["ok"] => "ok"
  | ["err", n] =>
    if n == "pfInvalidAction" || n == "pfIllegalRaise" || n == "injected" || n.startsWith "other:" then "backend" else n
  | _ => "?"

/-- last published action, model vs. implementation. The `round` of a `ready` / `pay` entry is read by the engine from
the hand state *when the event is emitted*; the answer that completes a request group races with the group's own
completion (which moves the hand on), so the engine may stamp it with the round of the request or of the next state.
Both are accepted for those two kinds; everything else must be equal. -/
def lastAgrees (model impl : Option HD.Last) : Bool :=
  match model, impl with
  | some a, some b =>
    a == b || ((a.action == "ready" || a.action == "pay") && { a with round := b.round } == b)
  | none, none => true
  | _, _ => false

structure HDDrv where
  hist : Nat := 0
  model : Option State := none
  dead : Bool := false
  diverged : Bool := false      -- model and implementation have disagreed in this history (reported once); the monitors go on
  logTrusted : Bool := true     -- the model's log of accepted actions still is the implementation's (false after an `act` disagreement)
  -- monitor memory
  reqView : Option View := none          -- the request point (Ready/Ante/Blinds) we are at, if any
  answered : List Nat := []              -- game indexes whose ready/pay was accepted since `reqView`
  nested : Bool := false                 -- the next state line is a re-publication made from inside the previous one's notification
  lastInjected : Option (Nat × String × Int) := none
  handOpen : Bool := false
  cnt : Counter := {}
  classes : Counter := {}
  mismatches : Nat := 0

def hdLine (d : HDDrv) (lineNo : Nat) (ts : List String) : HDDrv × List String :=
  let mism (d : HDDrv) (msg : String) : HDDrv × List String :=
    if d.diverged then (d, [])
    else ({ d with diverged := true, mismatches := d.mismatches + 1 }, [s!"MISMATCH hd hist={d.hist} line={lineNo} {msg}"])
  let viol (d : HDDrv) (vs : List String) : HDDrv × List String :=
    ({ d with classes := vs.foldl (fun c v => c.bump v) d.classes }, vs.map (fun c => s!"MONITOR {c} layer=hd hist={d.hist} line={lineNo}"))
  match ts with
  | "new" :: rest =>
    let h := (kvNat rest "h").getD (d.hist + 1)
    let ps := (dashList ((kv rest "players").getD "-") ";").filterMap (fun c => match c.splitOn ":" with
      | [id, seat, _] => do pure ({ id := (← id.toNat?), seat := (← seat.toInt?) } : HPlayer)
      | _ => none)
    let st : State := { players := ps, hand := [], gc := 0, actionTime := (kvInt rest "actiontime").getD 0, playing := false, view := none, last := none }
    ({ d with hist := h, model := some st, dead := false, diverged := false, logTrusted := true, reqView := none, answered := [], lastInjected := none, handOpen := false,
              cnt := d.cnt.bump "histories" }, [])
  | _ =>
  if d.dead then (d, []) else
  match d.model with
  | none => (d, [s!"BADLINE {lineNo} no-hd-history"])
  | some m =>
  let (pre, post) := splitBar ts
  match pre with
  | "open" :: rest =>
    let ids := (dashList ((kv rest "hand").getD "-") ";").filterMap (fun c => (c.splitOn ":").head?.bind (·.toNat?))
    ({ d with model := some { m with hand := ids, gc := (kvNat rest "gc").getD 0, playing := true, log := [], events := [] },
              handOpen := true, reqView := none, answered := [], cnt := (d.cnt.bump "hands").bump s!"players{ids.length}" }, [])
  | "state" :: rest =>
    match parseView rest, (kv rest "st"), kvInt post "endat", (kv post "last").bind parseLast, (kv post "stats").bind parseStats,
          kvInt rest "t0", kvInt rest "t1" with
    | some v, some st, some endat, some last, some stats, some t0, some t1 =>
      let wasPlaying := st == "playing" || st == "settled"
      let arms := armsDeadline wasPlaying v && (m.view.map (fun (x : View) => x.stamp)) != some v.stamp
      let now := endat - m.actionTime
      -- a snapshot that carries the state we already have is a re-publication (deadline extension …), not a delivery
      let republished := (m.view.map (fun (x : View) => x.stamp)) == some v.stamp
      let m1 := if republished then m else deliver m v wasPlaying now
      -- 1. correspondence: statistics (showdown flags are settlement's and need card powers: masked), last action, deadline
      let statDiff := stats.find? (fun e => maskSD (statsOf m1.players e.1) != maskSD e.2)
      let out1 :=
        match statDiff with
        | some e => [s!"MISMATCH hd hist={d.hist} line={lineNo} field=statistics player={e.1} model={repr (maskSD (statsOf m1.players e.1))} impl={repr (maskSD e.2)}"]
        | none =>
          -- (the engine clears the last action of a closed round *after* notifying; a re-publication made from inside that
          -- notification still carries it)
          if !(d.nested && republished) && !(lastAgrees m1.last last) then [s!"MISMATCH hd hist={d.hist} line={lineNo} field=last-action model={repr m1.last} impl={repr last}"]
          else if m1.endAt != endat then [s!"MISMATCH hd hist={d.hist} line={lineNo} field=deadline model={m1.endAt} impl={endat} arms={arms}"]
          else []
      -- 2. monitors
      let vPF := if PF.wf v then [] else ["CONTRACT.pokerface-state-not-well-formed"]
      -- C15
      let v15 :=
        (if arms && !(t0 + m.actionTime ≤ endat && endat ≤ t1 + m.actionTime) then ["C15.deadline-is-not-request-time-plus-action-time"] else []) ++
        -- (judged on the publication of the closed round itself; a later re-publication of the same state may carry an
        -- extension somebody asked for in the meantime)
        (if v.event == "RoundClosed" && !republished && endat != 0 then ["C15.deadline-not-cleared-when-the-round-closed"] else [])
      -- C11: who is asked; nobody moves on before everybody answered
      let isReq := v.event == "ReadyRequested" || v.event == "AnteRequested" || v.event == "BlindsRequested"
      let kind := if v.event == "ReadyRequested" then "ready" else "pay"
      let implAsked := (v.players.filter (fun p => p.allowed.contains kind)).map (·.idx)
      let v11a := if isReq && wasPlaying && implAsked != asked v then ["C11.asked-set-wrong"] else []
      let v11b := match d.reqView with
        | some rv =>
          if v.stamp != rv.stamp && !((asked rv).all (fun i => d.answered.contains i)) then ["C11.hand-advanced-before-everybody-asked-had-answered"] else []
        | none => []
      -- C14 at the end of the hand
      let v14 := if v.event == "GameClosed" then
          stats.foldl (fun acc e =>
            let id := e.1
            let s := e.2
            let mine := m1.log.filter (fun l => l.1 == id)
            let wagers := mine.filter (fun l => wagerKinds.contains l.2.1)
            let folds := mine.filter (fun l => l.2.1 == "fold")
            acc ++
            (if !d.logTrusted || (s.actionTimes == wagers.length && s.callTimes == (mine.filter (fun l => l.2.1 == "call")).length &&
                s.checkTimes == (mine.filter (fun l => l.2.1 == "check")).length) then [] else ["C14.counters-differ-from-accepted-actions"]) ++
            (if s.raiseTimes ≤ s.actionTimes then [] else ["C14.more-raises-than-actions"]) ++
            (if !d.logTrusted || (s.isFold == !folds.isEmpty && (folds.isEmpty || some s.foldRound == (folds.head?.map (·.2.2)))) then [] else ["C14.fold-flag-or-round-wrong"]) ++
            (if (!s.vpip || s.vpipC) && (!s.pfr || s.pfrC) && (!s.ats || s.atsC) && (!s.b3 || s.b3C) && (!s.ft3b || s.ft3bC) &&
                (!s.cr || s.crC) && (!s.cb || s.cbC) && (!s.ftcb || s.ftcbC) && (!s.sd || s.sdC) then [] else ["C14.did-flag-without-its-chance-flag"])) [] ++
          (if (stats.filter (fun e => e.2.b3)).length ≤ 1 then [] else ["C14.more-than-one-three-bet-flag"]) ++
          (if v.hasResult then [] else ["C11.hand-closed-without-a-result"])
        else []
      let (d, out2) := viol d (vPF ++ v15 ++ v11a ++ v11b ++ v14)
      let d := { d with nested := false, cnt := (d.cnt.bump "states").bump ("ev." ++ v.event),
                        reqView := if isReq then some v else none, answered := if isReq && (d.reqView.map (fun (x : View) => x.stamp)) == some v.stamp then d.answered else [] }
      if out1.isEmpty then ({ d with model := some (afterEmit m1 v) }, out2)
      else if d.diverged then ({ d with model := some (afterEmit m1 v) }, out2)
      else ({ d with diverged := true, mismatches := d.mismatches + 1, model := some (afterEmit m1 v) }, out1 ++ out2)
    | _, _, _, _, _, _, _ => (d, [s!"BADLINE {lineNo} hd-state"])
  | "act" :: rest =>
    match kvNat rest "id", kv rest "kind", kvInt rest "arg", (kv rest "legal").bind boolOf, kv rest "bk", kvInt rest "nr", kv rest "same", kv rest "ev" with
    | some id, some kind, some arg, some legal, some bk, some nr, some same, some ev =>
      let oracle : Oracle := if bk == "none" then .none else if bk.endsWith ":ok" then .ok nr else .err
      -- the table status at the moment of the call is an input (it flips to `playing` a moment after the first state is out)
      let m := { m with playing := (kv rest "st").getD "playing" == "playing" }
      let r := act m id kind arg oracle
      let mc := match r.2 with | .ok => "ok" | .err e => errClass e
      let ic := implErrClass post
      let d := { d with cnt := (d.cnt.bump "acts").bump (if ic == "ok" then "acts.ok" else "acts.err") }
      let (dm, outm) : HDDrv × List String :=
        if mc != ic then mism { d with logTrusted := false } s!"op=act id={id} kind={kind} model={mc} impl={String.intercalate " " post} bk={bk}" else (d, [])
      let d := dm
      (fun (res : HDDrv × List String) => (res.1, outm ++ res.2)) <|
        let gi := findIdx m.hand id
        -- monitors
        let v10 :=
          (if ic == "ok" && !legal then ["C10.illegal-action-accepted"] else []) ++
          -- C02: an action accepted for an entry of the hand was submitted by that entry's player — never by somebody who is
          -- not in the hand's list at all (a player who left, or busted, after an earlier hand)
          (if ic == "ok" && gi.isNone then ["C02.action-accepted-from-a-player-who-is-not-an-entry-of-the-hand"] else []) ++
          (if ic != "ok" && same == "0" then ["C10.refused-action-left-a-trace"] else []) ++
          (if ic == "ok" && (wagerKinds.contains kind || kind == "pass") then
            (match parseLast ev, r.1.last with
             | some (some e), some l => if e == l then [] else ["C10.published-action-event-differs-from-the-accepted-action"]
             | _, _ => ["C10.accepted-action-not-published-as-an-event"])
           else [])
        let v13 :=
          -- (a `ready` / `pay` answer never reaches the backend itself: a backend call recorded after the last answer of a
          -- request group is the engine's own group call, whose failure goes to the error callback — `internal-fault`)
          (if bk.endsWith ":err" && ic == "ok" && (wagerKinds.contains kind || kind == "pass") then ["C13.backend-failure-not-returned-to-the-caller"] else []) ++
          (if bk.endsWith ":err" && same == "0" && (wagerKinds.contains kind || kind == "pass") then ["C13.backend-failure-left-a-trace"] else []) ++
          (match d.lastInjected with
           | some (i, k, a) => if i == id && k == kind && a == arg && ic != "ok" then ["C13.action-refused-on-retry-after-a-backend-failure"] else []
           | none => [])
        -- pokerface acceptance contract, for wager actions that reached the backend un-injected
        let vpf := match m.view, gi with
          | some v, some g =>
            if bk != "none" && post != ["err", "injected"] && wagerKinds.contains kind then
              (match v.players[g]? with
               | some p => if PF.accepts v p kind arg == bk.endsWith ":ok" then [] else ["CONTRACT.pokerface-acceptance-differs-from-PF.accepts"]
               | none => [])
            else []
          | _, _ => []
        let (d, out) := viol d (v10 ++ v13 ++ vpf)
        let answered := if ic == "ok" && (kind == "ready" || kind == "pay") then (match gi with | some g => g :: d.answered | none => d.answered) else d.answered
        ({ d with model := some r.1, answered := answered,
                  lastInjected := if post == ["err", "injected"] then some (id, kind, arg) else none }, out)
    | _, _, _, _, _, _, _, _ => (d, [s!"BADLINE {lineNo} hd-act"])
  | "extend" :: rest =>
    match kvInt rest "d", kvInt post "ret" with
    | some dd, some ret =>
      let (m1, r) := extend m dd
      let (d, out) := viol d (if r == ret then [] else ["C15.extension-did-not-move-the-deadline-by-the-requested-seconds"])
      ({ d with model := some { m1 with endAt := ret }, nested := (kv rest "closed").getD "0" == "1", cnt := d.cnt.bump "extends" }, out)
    | _, _ => (d, [s!"BADLINE {lineNo} hd-extend"])
  | "between" :: rest =>
    match kvInt rest "endat", (kv rest "last").bind parseLast, (kv rest "stats").bind parseStats with
    | some endat, some last, some stats =>
      let (d, out) := viol d (
        (if stats.all (fun e => e.2 == ({} : Stats)) then [] else ["C14.statistics-not-cleared-between-hands"]) ++
        (if endat == 0 then [] else ["C15.deadline-not-cleared-between-hands"]) ++
        (if last.isNone then [] else ["C07.last-action-not-cleared-between-hands"]))
      ({ d with model := some (reset m), handOpen := false, reqView := none, answered := [] }, out)
    | _, _, _ => (d, [s!"BADLINE {lineNo} hd-between"])
  | "failedstart" :: rest =>
    -- the backend refused to create the hand: the table opened a hand (count raised) that does not exist; it stays
    -- `opened`, and every action from here on meets "no hand is being played"
    let stt := (kv rest "st").getD "?"
    let hasg := (kv rest "hasgame").getD "?"
    let (d, out) := viol d (
      (if stt == "playing" then ["C10.table-says-playing-although-the-hand-was-not-created"] else []) ++
      (if hasg == "1" then ["C10.hand-state-present-although-the-hand-was-not-created"] else []))
    ({ d with model := some (reset m), handOpen := false, reqView := none, answered := [], cnt := d.cnt.bump "failed-starts" }, out)
  | "abort" :: _ => ({ d with dead := true, cnt := d.cnt.bump "dropped-by-harness" }, [])
  | "withheld" :: rest =>
    -- one asked player stayed silent; everybody else answered; the response time-out was waited out
    let adv := (kv post "advanced").getD "0" == "1"
    let ms := (kvNat post "ms").getD 0
    let gi := (kvNat rest "gi").getD 0
    -- the model: the time-out answers for everybody still awaited (`RG.timeout`), so the group completes
    let modelDone := match d.reqView with
      | some rv => ((d.answered.foldl RG.answer (RG.arm rv)).timeout).done
      | none => true
    let early := adv && ms + 1500 < Facts.gameTimeoutSecs * 1000 &&
                 (match d.reqView with | some rv => (asked rv).contains gi && !(d.answered.contains gi) | none => false)
    let (d, out) := viol d (
      (if modelDone && !adv then ["C11.hand-did-not-move-on-after-the-response-timeout"] else []) ++
      (if early then ["C11.hand-advanced-before-everybody-asked-had-answered"] else []))
    -- from here on everybody counts as answered (the time-out did it)
    ({ d with answered := (match d.reqView with | some rv => asked rv | none => d.answered),
              cnt := (d.cnt.bump "withheld").bump ("withheld." ++ (kv rest "ev").getD "?") }, out)
  | "crash" :: rest =>
    let (d, out) := viol d ["CRASH.engine-panic"]
    ({ d with dead := true, mismatches := d.mismatches + 1, cnt := d.cnt.bump "crashed" },
     [s!"MISMATCH hd hist={d.hist} line={lineNo} engine panicked: {" ".intercalate rest}"] ++ out)
  | "stuck" :: rest =>
    let (d, out) := viol d ["C11.hand-did-not-reach-settlement"]
    ({ d with dead := true, cnt := d.cnt.bump ("stuck." ++ (kv rest "reason").getD "?") }, out)
  | "internal-fault" :: rest =>
    let rep := (kv rest "reported").getD "0"
    let (d, out) := viol d (if rep == "1" then [] else ["C13.internal-backend-failure-not-reported-on-the-error-callback"])
    ({ d with dead := true, cnt := d.cnt.bump ("internal-fault." ++ (kv rest "kind").getD "?") }, out)
  | "end" :: _ => ({ d with model := none }, [])
  | _ => (d, [s!"BADLINE {lineNo} unknown-hd-op"])

def HDDrv.summary (d : HDDrv) : List String :=
  [s!"SUMMARY hd mismatches={d.mismatches} {d.cnt.render}", s!"CLASSES hd {d.classes.render}"]

end Drv
