import PokerVerif.Generated.Facts
/-!
# HD — model of the table engine and game wrapper while a hand runs

`game.go` (who may submit what, the request groups, auto-next, close) and the hand-related parts of
`table_engine.go` / `table_engine_internal.go` / `game_statistics.go` (validateGameMove, Player<Action>,
createPlayerGameAction, statistics, updateGameState, updateCurrentActionEndAt, PlayerExtendActionDeadline).

The hand engine (pokerface) is a parameter: every state it returned reaches the model as a `View` (the projection
pokertable reads), every backend call an action caused as an oracle outcome.  `PF.available` / `PF.accepts`
transcribe pokerface's acceptance side (`GetAvailableActions`, the guards of `Bet/Raise/...`); they are contracts
about the external engine, monitored on every real state.
-/
namespace HD

structure PView where
  idx : Nat
  positions : List String
  acted : Bool
  did : String             -- "" = none
  fold : Bool
  allowed : List String
  bankroll : Int
  init : Int               -- InitialStackSize
  stack : Int
  wager : Int
  pot : Int
deriving Repr, DecidableEq, Inhabited

structure View where
  stamp : Nat              -- UpdatedAt
  gid : Nat                -- hash of the game id
  event : String
  round : String           -- "" before the first round
  cur : Int
  raiser : Int
  wager : Int
  mini : Int
  prev : Int
  ante : Int
  bDealer : Int
  bSB : Int
  bBB : Int
  hasResult : Bool
  players : List PView
deriving Repr, DecidableEq, Inhabited

def View.player (v : View) (i : Int) : Option PView := if 0 ≤ i then v.players[i.toNat]? else none
def View.hasAction (v : View) (i : Int) (a : String) : Bool :=
  match v.player i with | some p => p.allowed.contains a | none => false
def View.hasPosition (v : View) (i : Int) (pos : String) : Bool :=
  match v.player i with | some p => p.positions.contains pos | none => false

structure Stats where
  actionTimes : Nat := 0
  raiseTimes : Nat := 0
  callTimes : Nat := 0
  checkTimes : Nat := 0
  isFold : Bool := false
  foldRound : String := ""
  vpipC : Bool := false
  vpip : Bool := false
  pfrC : Bool := false
  pfr : Bool := false
  atsC : Bool := false
  ats : Bool := false
  b3C : Bool := false
  b3 : Bool := false
  ft3bC : Bool := false
  ft3b : Bool := false
  crC : Bool := false
  cr : Bool := false
  cbC : Bool := false
  cb : Bool := false
  ftcbC : Bool := false
  ftcb : Bool := false
  sdC : Bool := false
  sd : Bool := false
deriving Repr, DecidableEq, Inhabited

structure HPlayer where
  id : Nat
  seat : Int
  stats : Stats := {}
deriving Repr, DecidableEq, Inhabited

structure Last where
  id : Nat
  seat : Int
  action : String
  round : String
  chips : Int
  gc : Nat
  gid : Nat
deriving Repr, DecidableEq, Inhabited

structure State where
  players : List HPlayer            -- PlayerStates (id, seat, statistics), table order
  hand : List Nat                   -- ids of the hand's entries, game-index order (GamePlayerIndexes through PlayerStates)
  gc : Nat
  actionTime : Int
  playing : Bool                    -- Status == table_game_playing
  view : Option View                -- the hand state (table's and the wrapper's: equal at quiescent points)
  last : Option Last
  endAt : Int := 0                  -- CurrentActionEndAt (0 = nobody)
  -- ghost (specification only): actions accepted in this hand, per player id
  log : List (Nat × String × String) := []      -- (id, action, round)
  events : List Last := []          -- action events emitted

inductive Err
  | invalidGameAction | playerNotFound | gamePlayerNotFound | gameInvalidAction | gameUnknownEvent | backend
deriving Repr, DecidableEq, Inhabited

inductive Res | ok | err (e : Err)
deriving Repr, DecidableEq, Inhabited

/-- what the backend did with the call an action caused -/
inductive Oracle
  | none                    -- no backend call was made
  | ok (newRaiser : Int)    -- accepted; `CurrentRaiser` of the state it returned
  | err                     -- the backend returned an error
deriving Repr, DecidableEq, Inhabited

def wagerKinds : List String := ["fold", "check", "call", "allin", "bet", "raise"]
def betRounds : List String := ["preflop", "flop", "turn", "river"]

def findIdx (l : List Nat) (id : Nat) : Option Nat :=
  let rec go : List Nat → Nat → Option Nat
    | [], _ => none
    | h :: t, k => if h == id then some k else go t (k+1)
  go l 0

def updStats (ps : List HPlayer) (id : Nat) (f : Stats → Stats) : List HPlayer :=
  ps.map (fun p => if p.id == id then { p with stats := f p.stats } else p)

def statsOf (ps : List HPlayer) (id : Nat) : Stats :=
  match ps.find? (fun p => p.id == id) with | some p => p.stats | none => {}

/-- `refreshThreeBet` -/
def refreshThreeBet (ps : List HPlayer) (id : Nat) : List HPlayer :=
  let has := ps.any (fun p => p.stats.b3)
  let ps1 := if has then ps.map (fun p => { p with stats := { p.stats with b3 := false } }) else ps
  if (statsOf ps1 id).b3C then
    ps1.map (fun p => { p with stats := { p.stats with b3 := p.id == id } })
  else ps1

/-- what an accepted action does to the acting player's own statistics (the `err == nil` branches of `table_engine.go`,
without the three-bet label, which is table-wide: `refreshThreeBet`) -/
def bump1 (kind : String) (isRaiser : Bool) (round : String) (s : Stats) : Stats :=
  if kind == "bet" then
    { s with actionTimes := s.actionTimes + 1, raiseTimes := if isRaiser then s.raiseTimes + 1 else s.raiseTimes,
             vpip := s.vpip || s.vpipC, cb := s.cb || s.cbC }
  else if kind == "raise" then
    { s with actionTimes := s.actionTimes + 1, raiseTimes := s.raiseTimes + 1, vpip := s.vpip || s.vpipC, pfr := s.pfr || s.pfrC,
             ats := s.ats || s.atsC, cr := s.cr || s.crC, cb := s.cb || s.cbC }
  else if kind == "call" then
    { s with actionTimes := s.actionTimes + 1, callTimes := s.callTimes + 1, vpip := s.vpip || s.vpipC }
  else if kind == "allin" then
    if isRaiser then
      { s with actionTimes := s.actionTimes + 1, raiseTimes := s.raiseTimes + 1, pfr := s.pfr || s.pfrC, ats := s.ats || s.atsC,
               cr := s.cr || s.crC, vpip := s.vpip || s.vpipC, cb := s.cb || s.cbC }
    else { s with actionTimes := s.actionTimes + 1, vpip := s.vpip || s.vpipC, cb := s.cb || s.cbC }
  else if kind == "check" then
    { s with actionTimes := s.actionTimes + 1, checkTimes := s.checkTimes + 1 }
  else if kind == "fold" then
    { s with actionTimes := s.actionTimes + 1, isFold := true, foldRound := round, ft3b := s.ft3b || s.ft3bC,
             ftcb := s.ftcb || s.ft3bC }      -- sic: IsFtCB is set under IsFt3BChance
  else s

/-- does this accepted action go through `refreshThreeBet`? -/
def raiseLike (kind : String) (isRaiser : Bool) : Bool := kind == "raise" || (kind == "allin" && isRaiser)

/-- statistics bookkeeping of an accepted action -/
def bumpStats (ps : List HPlayer) (id : Nat) (kind : String) (isRaiser : Bool) (round : String) : List HPlayer :=
  let ps1 := updStats ps id (bump1 kind isRaiser round)
  if raiseLike kind isRaiser then refreshThreeBet ps1 id else ps1

/-- chips published with the action (`createPlayerGameAction` argument) -/
def actionChips (v : View) (gi : Nat) (kind : String) (arg : Int) : Int :=
  match v.players[gi]? with
  | none => if kind == "bet" || kind == "raise" || kind == "pay" then arg else 0
  | some p =>
    if kind == "call" then v.wager - p.wager
    else if kind == "allin" then p.stack
    else if kind == "bet" || kind == "raise" || kind == "pay" then arg
    else 0

def seatOfId (s : State) (id : Nat) : Int :=
  match s.players.find? (fun p => p.id == id) with | some p => p.seat | none => -1

/-- the record `createPlayerGameAction` builds for an accepted action -/
def mkLast (s : State) (v : View) (id gi : Nat) (kind : String) (arg : Int) : Last :=
  { id := id, seat := seatOfId s id, action := kind, round := v.round, chips := actionChips v gi kind arg, gc := s.gc, gid := v.gid }

/-- the effects of an accepted action: last action, statistics, (for pass and the wager actions) an action event -/
def accept (s : State) (v : View) (id gi : Nat) (kind : String) (arg : Int) (isRaiser emit : Bool) : State :=
  { s with last := some (mkLast s v id gi kind arg), players := bumpStats s.players id kind isRaiser v.round,
           log := s.log ++ [(id, kind, v.round)],
           events := if emit then s.events ++ [mkLast s v id gi kind arg] else s.events }

/-- one `Player<Action>(id, arg)` call.  `oracle` = what the backend did if it was asked. -/
def act (s : State) (id : Nat) (kind : String) (arg : Int) (oracle : Oracle) : State × Res :=
  -- validateGameMove
  if !s.playing then (s, .err .invalidGameAction) else
  match findIdx s.hand id with
  | none => (s, .err .playerNotFound)
  | some gi =>
    -- FindPlayerIndexFromGamePlayerIndex compares the game index with len(PlayerStates)
    if gi ≥ s.players.length then (s, .err .gamePlayerNotFound) else
    match s.view with
    | none => (s, .err .gamePlayerNotFound)       -- g.gs is nil only before the first state; not reachable while playing
    | some v =>
      if kind == "ready" || kind == "pay" then
        -- validateActionMove
        if (v.player gi).isNone then (s, .err .gamePlayerNotFound)
        else if !(v.hasAction gi kind) then (s, .err .gameInvalidAction)
        else if kind == "ready" then (accept s v id gi kind arg false false, .ok)
        else if v.event == "AnteRequested" || v.event == "BlindsRequested" then (accept s v id gi kind arg false false, .ok)
        else match oracle with
          | .ok _ => (accept s v id gi kind arg false false, .ok)
          | _ => (s, .err .backend)
      else
        -- validatePlayMove
        if (v.player gi).isNone then (s, .err .gamePlayerNotFound)
        else if v.cur != (gi : Int) then (s, .err .gameInvalidAction)
        else if kind == "pass" && !(v.hasAction gi "pass") then (s, .err .gameInvalidAction)
        else match oracle with
          | .ok nr => (accept s v id gi kind arg (nr == (gi : Int)) true, .ok)
          | _ => (s, .err .backend)

-- ---------------------------------------------------------------- statistics: chances

/-- `validateGameStatisticGameState` (the event symbol it compares with comes from the source) -/
def statEvent : String :=
  if Facts.statValidEventStmt == "validEvent := pokerface.GameEventSymbols[pokerface.GameEvent_Started]" then "Started"
  else if Facts.statValidEventStmt == "validEvent := pokerface.GameEventSymbols[pokerface.GameEvent_RoundStarted]" then "RoundStarted"
  else "?unknown"

def statStateOK (v : View) (gi : Nat) : Bool :=
  v.event == statEvent && betRounds.contains v.round &&
  (match v.players[gi]? with
   | some p => p.acted && !p.allowed.isEmpty && p.allowed.all (fun a => wagerKinds.contains a)
   | none => false)

def roundChance (round : String) (stat : String) : Bool :=
  if round == "preflop" then ["vpip", "pfr", "ats", "three-bet", "ft3b"].contains stat
  else if round == "flop" then ["check-raise", "c-bet", "ftcb"].contains stat
  else false

def others (v : View) (gi : Nat) : List PView := v.players.filter (fun p => p.idx != gi)

def isPFRChance (v : View) (gi : Nat) : Bool :=
  statStateOK v gi && roundChance v.round "pfr" &&
  (let o := others v gi
   let allinCall := (o.filter (fun p => p.did == "allin" && v.raiser != (p.idx : Int))).length
   let call := (o.filter (fun p => p.did == "call")).length
   let fold := (o.filter (fun p => p.did == "fold")).length
   allinCall + call + fold == v.players.length - 1)

def isATSChance (v : View) (gi : Nat) : Bool :=
  statStateOK v gi && roundChance v.round "ats" &&
  (let acted := (v.players.filter (·.acted)).length
   let fold := (v.players.filter (fun p => p.acted && p.idx != gi && p.fold)).length
   let pos := v.hasPosition gi "sb" || v.hasPosition gi "co" || v.hasPosition gi "dealer"
   decide ((fold : Int) = (acted : Int) - 1) && pos)

def is3BChance (v : View) (gi : Nat) : Bool :=
  roundChance v.round "three-bet" &&
  (let o := others v gi
   let allinRaiser := (o.filter (fun p => p.did == "allin" && v.raiser == (p.idx : Int))).length
   let raiser := (o.filter (fun p => p.did == "raise")).length
   (allinRaiser == 1 && raiser == 0) || (allinRaiser == 0 && raiser == 1))

def canRaiseLike (v : View) (p : PView) : Bool :=
  p.allowed.contains "raise" || (p.allowed.contains "allin" && decide (p.stack > v.mini))

/-- chance flags raised for the player to act when a state reaches the table (`updateCurrentPlayerGameStatistics`) -/
def chances (s : State) (v : View) : List HPlayer :=
  if v.cur < 0 then s.players else
  let gi := v.cur.toNat
  -- FindPlayerIndexFromGamePlayerIndex: game index ≥ number of table players → not found; ≥ hand length → Go panics
  if gi ≥ s.players.length then s.players else
  match s.hand[gi]? with
  | none => s.players
  | some id =>
    let me := statsOf s.players id
    let othersHave (f : Stats → Bool) : Bool := s.players.any (fun p => p.id != id && f p.stats)
    let pv := v.players[gi]?
    updStats s.players id (fun st =>
      { st with
        vpipC := st.vpipC || (statStateOK v gi && roundChance v.round "vpip" && !me.vpip),
        pfrC := st.pfrC || isPFRChance v gi,
        atsC := st.atsC || isATSChance v gi,
        b3C := st.b3C || is3BChance v gi,
        ft3bC := st.ft3bC || (statStateOK v gi && roundChance v.round "ft3b" && othersHave (·.b3)),
        crC := st.crC || (statStateOK v gi && roundChance v.round "check-raise" &&
                 (match pv with | some p => p.did == "check" && canRaiseLike v p | none => false)),
        cbC := st.cbC || (statStateOK v gi && roundChance v.round "c-bet" &&
                 (match pv with | some p => v.raiser == (gi : Int) && (p.allowed.contains "bet" || canRaiseLike v p) | none => false)),
        ftcbC := st.ftcbC || (statStateOK v gi && roundChance v.round "ftcb" && othersHave (·.cb)) })

-- ---------------------------------------------------------------- a state reaches the table

/-- "a betting round asks a player who has not yet acted to choose a wager action" -/
def asksForWager (v : View) : Bool :=
  v.event == "RoundStarted" && betRounds.contains v.round &&
  (match v.player v.cur with
   | some p => !p.allowed.isEmpty && !p.acted && p.allowed.all (fun a => wagerKinds.contains a)
   | none => false)

/-- does `updateCurrentActionEndAt` arm the deadline for this state? -/
def armsDeadline (playing : Bool) (v : View) : Bool := playing && asksForWager v

/-- `game.handleGameState` + `te.updateGameState` for a state other than GameClosed.  `now` = the engine's clock. -/
def deliver (s : State) (v : View) (playingNow : Bool) (now : Int) : State :=
  { s with playing := playingNow, view := some v,
           -- statistics: chance flags for the player to act (only while the table is `playing`)
           players := if playingNow then chances s v else s.players,
           -- the wrapper's RoundClosed handler clears the deadline before the table sees the state;
           -- `updateCurrentActionEndAt` arms it for a player who is asked for a wager action
           endAt := if armsDeadline playingNow v then now + s.actionTime
                    else if v.event == "RoundClosed" then 0 else s.endAt }

/-- what the *next* snapshot shows: `LastPlayerGameAction` is cleared after the RoundClosed notification went out -/
def afterEmit (s : State) (v : View) : State :=
  if v.event == "RoundClosed" then { s with last := none } else s

/-- `PlayerExtendActionDeadline(id, d)`: the id is ignored -/
def extend (s : State) (d : Int) : State × Int := ({ s with endAt := s.endAt + d }, s.endAt + d)

/-- between hands (`continueGame`) -/
def reset (s : State) : State :=
  { s with view := none, last := none, endAt := 0, hand := [], playing := false, log := [],
           players := s.players.map (fun p => { p with stats := {} }) }

-- ---------------------------------------------------------------- the request groups of the wrapper (C11)

/-- who is asked at a request point (`onReadyRequested` / `onAnteRequested` / `onBlindsRequested`) -/
def asked (v : View) : List Nat :=
  if v.event == "ReadyRequested" then v.players.map (·.idx)
  else if v.event == "AnteRequested" then (if v.ante == 0 then [] else v.players.map (·.idx))
  else if v.event == "BlindsRequested" then
    (v.players.filter (fun p =>
      (decide (v.bBB > 0) && p.positions.contains "bb") || (decide (v.bSB > 0) && p.positions.contains "sb") ||
      (decide (v.bDealer > 0) && p.positions.contains "dealer"))).map (·.idx)
  else []

/-- the group call issued when the request group completes -/
def groupCall (v : View) : String :=
  if v.event == "ReadyRequested" then "readyforall"
  else if v.event == "AnteRequested" then "payante"
  else if v.event == "BlindsRequested" then "payblinds" else ""

structure RG where
  awaited : List Nat := []
  answered : List Nat := []
  done : Bool := false            -- the completion callback has been spawned

def RG.arm (v : View) : RG := { awaited := asked v }
def RG.answer (g : RG) (i : Nat) : RG :=
  if g.awaited.contains i && !(g.answered.contains i) then
    let g1 := { g with answered := g.answered ++ [i] }
    if g1.awaited.all (fun k => g1.answered.contains k) && !g1.done then { g1 with done := true } else g1
  else g
def RG.timeout (g : RG) : RG :=
  if g.done || g.awaited.isEmpty then g else { g with answered := g.awaited, done := true }

end HD

-- ================================================================== pokerface acceptance side (contracts)
namespace PF
open HD

/-- `GetAvailableActions` -/
def available (v : View) (p : PView) : List String :=
  if p.fold then ["pass"]
  else if p.stack == 0 then ["pass"]
  else
    ["allin"] ++
    (if p.wager < v.wager then
      ["fold"] ++ (if p.init > v.wager then ["call"] ++ (if p.init > v.wager + v.prev then ["raise"] else []) else [])
     else
      ["check"] ++ (if p.init ≥ v.mini then (if v.wager == 0 then ["bet"] else ["raise"]) else []))

/-- does pokerface accept this wager action from the current player (`CheckAction` + the `Raise` guards)? -/
def accepts (v : View) (p : PView) (kind : String) (arg : Int) : Bool :=
  if kind == "pass" then true          -- `Pass` answers "ok, unchanged" when pass is not allowed
  else if !(p.allowed.contains kind) then false
  else if kind == "raise" then !(arg == 0 || arg < v.wager)
  else true

/-- well-formedness of a resting hand state, as pokertable relies on it -/
def wf (v : View) : Bool :=
  decide (0 ≤ v.prev) && decide (0 ≤ v.wager) && decide (0 ≤ v.mini) &&
  v.players.all (fun p => p.stack == p.init - p.wager && decide (0 ≤ p.wager) && decide (p.wager ≤ p.init) && decide (0 ≤ p.stack)) &&
  ((List.range v.players.length).zip v.players).all (fun e => e.2.idx == e.1) &&
  (if v.event == "RoundStarted" then
    ((List.range v.players.length).zip v.players).all (fun e =>
      if (e.1 : Int) == v.cur then e.2.allowed == available v e.2 else e.2.allowed.isEmpty)
   else true)

end PF
