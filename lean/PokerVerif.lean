-- root of the PokerVerif library: models, specifications, drivers, proofs
import PokerVerif.SM
import PokerVerif.SMSpec
import PokerVerif.TB
import PokerVerif.TBSpec
import PokerVerif.MG
import PokerVerif.Drv.SMDrv
import PokerVerif.Drv.TBDrv
import PokerVerif.Props.C01
import PokerVerif.Props.C02
import PokerVerif.Props.C03
import PokerVerif.Props.C04
import PokerVerif.Props.C05
import PokerVerif.Props.C06
import PokerVerif.Props.C07
import PokerVerif.Props.C08
import PokerVerif.Props.C12
import PokerVerif.Props.C17
