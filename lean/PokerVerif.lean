-- root of the PokerVerif library: models, specifications, proofs
import PokerVerif.SM
import PokerVerif.SMSpec
