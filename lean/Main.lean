import PokerVerif.Drv.SMDrv
import PokerVerif.Drv.TBDrv
import PokerVerif.Drv.OGMDrv
import PokerVerif.Drv.HDDrv
import PokerVerif.Drv.ACDrv
import PokerVerif.Drv.MGDrv
/-! Correspondence driver: reads a trace on stdin, replays it through the models, prints verdict lines. -/
open Drv

structure DrvState where
  lineNo : Nat := 0
  sm : SMDrv := {}
  tb : TBDrv := {}
  ogm : OGMDrv := {}
  hd : HDDrv := {}
  ac : ACDrv := {}
  mg : MGDrv := {}
  ccClasses : Counter := {}
  ccCnt : Counter := {}
  bad : Nat := 0

partial def loop (h : IO.FS.Stream) (out : IO.FS.Stream) (s : DrvState) : IO DrvState := do
  let line ← h.getLine
  if line.isEmpty then return s
  let n := s.lineNo + 1
  let ts := toks line
  match ts with
  | [] => loop h out { s with lineNo := n }
  | "#" :: _ => loop h out { s with lineNo := n }
  | "sm" :: rest =>
    let (sm', outs) := smLine s.sm n rest
    for o in outs do out.putStrLn o
    loop h out { s with lineNo := n, sm := sm' }
  | "tb" :: rest =>
    let (tb', outs) := tbLine s.tb n rest
    for o in outs do out.putStrLn o
    loop h out { s with lineNo := n, tb := tb' }
  | "ogm" :: rest =>
    let (o', outs) := ogmLine s.ogm n rest
    for o in outs do out.putStrLn o
    loop h out { s with lineNo := n, ogm := o' }
  | "hd" :: rest =>
    let (o', outs) := hdLine s.hd n rest
    for o in outs do out.putStrLn o
    loop h out { s with lineNo := n, hd := o' }
  | "cc" :: "anomaly" :: cls :: _ =>
    out.putStrLn s!"MONITOR {cls} layer=cc hist=burst line={n}"
    loop h out { s with lineNo := n, ccClasses := s.ccClasses.bump cls }
  | "cc" :: "actions" :: rest =>
    let settled := (kv rest "settled").getD "0" == "1"
    let conserved := (kv rest "conserved").getD "0" == "1"
    let acc := (kvNat rest "accepted").getD 0
    let cur := (kvNat rest "by_current").getD 0
    let vs := (if settled then [] else ["C16.hand-did-not-settle-after-simultaneous-actions"]) ++
              (if conserved then [] else ["C16.chips-not-conserved-after-simultaneous-actions"]) ++
              (if acc == cur then [] else ["C16.action-accepted-from-a-player-whose-turn-it-was-not"])
    for v in vs do out.putStrLn s!"MONITOR {v} layer=cc hist=burst line={n}"
    loop h out { s with lineNo := n, ccClasses := vs.foldl (fun c v => c.bump v) s.ccClasses,
                        ccCnt := (s.ccCnt.bump "action-bursts").bump "actions-accepted" acc }
  | "cc" :: "sm" :: _ => loop h out { s with lineNo := n, ccCnt := s.ccCnt.bump "sm-bursts" }
  | "cc" :: _ => loop h out { s with lineNo := n }
  | "mg" :: rest =>
    let (o', outs) := mgLine s.mg n rest
    for o in outs do out.putStrLn o
    loop h out { s with lineNo := n, mg := o' }
  | "ac" :: rest =>
    let (o', outs) := acLine s.ac n rest
    for o in outs do out.putStrLn o
    loop h out { s with lineNo := n, ac := o' }
  | _ =>
    out.putStrLn s!"BADLINE {n} unknown-layer"
    loop h out { s with lineNo := n, bad := s.bad + 1 }

def main : IO Unit := do
  let stdin ← IO.getStdin
  let stdout ← IO.getStdout
  let s ← loop stdin stdout {}
  for l in s.sm.summary do stdout.putStrLn l
  for l in s.tb.summary do stdout.putStrLn l
  for l in s.ogm.summary do stdout.putStrLn l
  for l in s.hd.summary do stdout.putStrLn l
  for l in s.ac.summary do stdout.putStrLn l
  for l in s.mg.summary do stdout.putStrLn l
  stdout.putStrLn s!"SUMMARY cc {s.ccCnt.render}"
  stdout.putStrLn s!"CLASSES cc {s.ccClasses.render}"
  stdout.putStrLn s!"DONE lines={s.lineNo}"
