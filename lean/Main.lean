import PokerVerif.Drv.SMDrv
import PokerVerif.Drv.TBDrv
import PokerVerif.Drv.OGMDrv
import PokerVerif.Drv.HDDrv
import PokerVerif.Drv.ACDrv
/-! Correspondence driver: reads a trace on stdin, replays it through the models, prints verdict lines. -/
open Drv

structure DrvState where
  lineNo : Nat := 0
  sm : SMDrv := {}
  tb : TBDrv := {}
  ogm : OGMDrv := {}
  hd : HDDrv := {}
  ac : ACDrv := {}
  bad : Nat := 0

partial def loop (h : IO.FS.Stream) (out : IO.FS.Stream) (s : DrvState) : IO DrvState := do
  let line ← h.getLine
  if line.isEmpty then return s
  let n := s.lineNo + 1
  let ts := toks line
  match ts with
  | [] => loop h out { s with lineNo := n }
  | "#" :: _ => loop h out { s with lineNo := n }
  | "sm" :: rest =>
    let (sm', outs) := smLine s.sm n rest
    for o in outs do out.putStrLn o
    loop h out { s with lineNo := n, sm := sm' }
  | "tb" :: rest =>
    let (tb', outs) := tbLine s.tb n rest
    for o in outs do out.putStrLn o
    loop h out { s with lineNo := n, tb := tb' }
  | "ogm" :: rest =>
    let (o', outs) := ogmLine s.ogm n rest
    for o in outs do out.putStrLn o
    loop h out { s with lineNo := n, ogm := o' }
  | "hd" :: rest =>
    let (o', outs) := hdLine s.hd n rest
    for o in outs do out.putStrLn o
    loop h out { s with lineNo := n, hd := o' }
  | "ac" :: rest =>
    let (o', outs) := acLine s.ac n rest
    for o in outs do out.putStrLn o
    loop h out { s with lineNo := n, ac := o' }
  | _ =>
    out.putStrLn s!"BADLINE {n} unknown-layer"
    loop h out { s with lineNo := n, bad := s.bad + 1 }

def main : IO Unit := do
  let stdin ← IO.getStdin
  let stdout ← IO.getStdout
  let s ← loop stdin stdout {}
  for l in s.sm.summary do stdout.putStrLn l
  for l in s.tb.summary do stdout.putStrLn l
  for l in s.ogm.summary do stdout.putStrLn l
  for l in s.hd.summary do stdout.putStrLn l
  for l in s.ac.summary do stdout.putStrLn l
  stdout.putStrLn s!"DONE lines={s.lineNo}"
