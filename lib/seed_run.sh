#!/bin/bash
# usage: seed_run.sh <seed-name> <property ids…>  -- apply /verif/seeded/<seed>/patch.diff to /repo, run the quick checks,
# undo the change at once, and record the verdict lines in /verif/seeded/<seed>/detection.txt
S=$1; shift
D=/verif/seeded/$S
[ -z "$(git -C /repo status --short)" ] || { echo "/repo not clean"; exit 2; }
git -C /repo apply $D/patch.diff || exit 2
trap 'git -C /repo checkout -- .' EXIT
{
echo "== $(date -u +%FT%TZ) /repo $(git -C /repo rev-parse --short HEAD) + seeded/$S/patch.diff ; /verif $(git -C /verif rev-parse --short HEAD)"
for p in "$@"; do
  /verif/check $p --tier ${TIER:-quick} 2>&1 | grep '^VIOLATION\|^KNOWN-FINDING\|^FAIL\|^PASS\|^OK' | sed "s/^/$p: /"
done
} | tee -a $D/detection.txt
