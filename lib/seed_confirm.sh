#!/bin/bash
# usage: seed_confirm.sh <worktree> <seed-name> <demo-src (in SEED/)> <demo-dst (relative to repo root)> <go test args...>
# Confirms a sub-agent's seeded change inside its scratch worktree: the patch applies and builds (with and without the
# verif tag), the existing suite passes with it, the demonstration fails with it and passes without it; then copies
# patch, demonstration and meta to /verif/seeded/<seed-name>/ and writes confirm.txt there.
set -u
WT=$1; NAME=$2; SRC=$3; DST=$4; shift 4
export GOFLAGS=-mod=mod GOPROXY=off GOSUMDB=off GOTOOLCHAIN=local
cd "$WT" || exit 2
git checkout -q -- .
OUT=/verif/seeded/$NAME; mkdir -p $OUT
R=$OUT/confirm.txt; : > $R
say() { echo "$@" | tee -a $R; }
say "base commit: $(git rev-parse --short HEAD)"
cp SEED/$SRC $DST
say "== demo WITHOUT the change: go test $*"
go test "$@" > /tmp/seed-demo-$NAME.out 2>&1; rc0=$?; tail -3 /tmp/seed-demo-$NAME.out | tee -a $R; say "exit=$rc0"
git apply SEED/patch.diff || { say "PATCH DOES NOT APPLY"; exit 1; }
say "== build with the change"
go build ./... && go build -tags verif ./... ; say "build exit=$?"
say "== demo WITH the change"
go test "$@" > /tmp/seed-demo-$NAME.out 2>&1; rc1=$?; grep -m6 -- '--- FAIL\|FAIL\|panic' /tmp/seed-demo-$NAME.out | tee -a $R; say "exit=$rc1"
rm -f $DST
say "== existing suite WITH the change (go test -mod=mod -vet=off -count=1 ./...)"
go test -mod=mod -vet=off -count=1 -timeout 25m $(go list ./... | grep -v /SEED) > /tmp/seed-suite-$NAME.out 2>&1; say "exit=$?"; grep -v '^\[\|^->\|^$' /tmp/seed-suite-$NAME.out | grep '^ok\|^FAIL\|^---\|^panic\|no test files' | tee -a $R
say "== testcases one test at a time WITH the change (the package run aborts on the known late-goroutine flake of the unchanged tree)"
for t in $(grep -ho '^func Test[A-Za-z0-9_]*' testcases/*_test.go | sed 's/func //'); do
  go test -mod=mod -vet=off -count=1 -run "^$t\$" ./testcases/ > /tmp/seed-one-$NAME.out 2>&1; say "$t exit=$?"
done; rm -f /tmp/seed-one-$NAME.out
git checkout -q -- .
cp SEED/patch.diff SEED/meta.json $OUT/; cp SEED/$SRC $OUT/$(basename $DST)
if [ $rc0 -eq 0 ] && [ $rc1 -ne 0 ]; then say "CONFIRMED: demo passes without, fails with"; else say "NOT CONFIRMED (rc0=$rc0 rc1=$rc1)"; fi
rm -f /tmp/seed-demo-$NAME.out /tmp/seed-suite-$NAME.out
