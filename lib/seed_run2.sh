#!/bin/bash
# usage: seed_run2.sh <seed-name> <worktree> <property ids…> -- like seed_run.sh, but against a scratch worktree (patch applied there)
# with the copy of /verif in /tmp/scratch/verif2, so that /repo and /verif/.build stay free for a sweep running at the same time
S=$1; WT=$2; shift 2
D=/verif/seeded/$S
git -C $WT checkout -q -- . ; git -C $WT apply $D/patch.diff || exit 2
{
echo "== $(date -u +%FT%TZ) /repo $(git -C $WT rev-parse --short HEAD) + seeded/$S/patch.diff ; /verif $(git -C /verif rev-parse --short HEAD) (scratch copy)"
for p in "$@"; do
  VERIF_REPO=$WT /tmp/scratch/verif2/check $p --tier ${TIER:-quick} 2>&1 | grep '^VIOLATION\|^KNOWN-FINDING\|^FAIL\|^PASS' | sed "s/^/$p: /"
done
} | tee -a $D/detection.txt
git -C $WT checkout -q -- .
