#!/bin/bash
# run every seeded change against the check of the property it breaks (fresh detection.txt per seed); /repo is restored after each
cd /verif
for s in $(ls seeded); do
  [ -f seeded/$s/patch.diff ] || continue
  p=$(jq -r '.property' seeded/$s/meta.json)
  rm -f seeded/$s/detection.txt
  lib/seed_run.sh $s $p > /dev/null 2>&1
  grep -h 'VIOLATION\|PASS\|FAIL' seeded/$s/detection.txt | cut -c1-200
done
git -C /repo status --short
