#!/bin/bash
# one thorough run per harness mode on an unchanged snapshot of /repo (table, sm, hand, conc, ogm, actor, mgr)
export VERIF_REPO=$VP_RUN_REPO
sed -i "s#/repo #$VP_RUN_REPO #; s#cp /repo/go.sum#cp $VP_RUN_REPO/go.sum#" setup.sh
./setup.sh > setup.log 2>&1 || { echo SETUP FAILED; tail -20 setup.log; exit 1; }
for p in ${PROBE_PROPS:-C07 C04 C13 C16 C09 C19 C17}; do
  ( time ./check $p --tier thorough ) 2>&1 | grep '^VIOLATION\|^FAIL\|^PASS\|^real\|^KNOWN' | cut -c1-220
done
echo THOROUGH-DONE
