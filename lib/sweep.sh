#!/bin/bash
# multi-seed sweep of every quick check on an unchanged snapshot of /repo, three checks at a time (load on purpose)
export VERIF_REPO=$VP_RUN_REPO
sed -i "s#/repo #$VP_RUN_REPO #; s#cp /repo/go.sum#cp $VP_RUN_REPO/go.sum#" setup.sh
./setup.sh > setup.log 2>&1 || { echo SETUP FAILED; tail -20 setup.log; exit 1; }
for seed in 2 3 4 5 6; do
  for grp in "C01 C10 C18" "C02 C11 C19" "C03 C13 C20" "C05 C14 C09" "C06 C15 C04" "C07 C16" "C08 C17" "C12"; do
    for p in $grp; do ( VERIF_SEED=$seed ./check $p --tier quick 2>&1 | grep '^VIOLATION\|^FAIL\|^PASS' | sed "s/^/seed=$seed /" ) & done
    wait
  done
done
echo SWEEP-DONE
