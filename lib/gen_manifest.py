#!/usr/bin/env python3
"""Regenerates /verif/MANIFEST.json from the table below (kept next to lib/props.py)."""
import json, os, sys
sys.path.insert(0, os.path.dirname(os.path.abspath(__file__)))
from props import PROPS

TECH = "Lean 4 theorems over a hand-written executable model + differential correspondence with the real code + facts regenerated from the source"
NOTE = ("trusted: Lean 4.33 kernel (axioms per theorem in the evidence), fidelity of the hand-written model as measured by this run's differential replay, "
        "fact extractor, Go harness and Lean driver parser; pokerface / syncsaga / timebank / Go scheduler are parameters or explicit events of the model, not verified")

CLAIMS = {
 "C01": "Ledger invariant proved for every event sequence of the table model (C01_ledger, any length, any configuration, every zero-sum backend result); settlement locality (C01_settle_local, C01_bystanders_untouched). Model tied to the engine by replaying every operation of random multi-hand histories (synthetic backend, add-ons during hands, busts, departures) and by the regenerated settle write-back fact; ledger and per-hand deltas also monitored on the implementation's snapshots.",
 "C02": "Start stacks, result credit and stability of the hand's list under joins / re-buys / add-ons proved on the model; 'every dealt-in player once, clockwise' and identity of entries are evaluated on every opened hand of every run (monitors handListExact/clockwise) and the model's list is compared with the engine's on every hand; a dealt-in player leaving mid-hand is known finding D7 (generator avoids it).",
 "C03": "All-or-nothing proved for every seat-manager mutator and for PlayerReserve / PlayersLeave / stranger calls; vacated seat empty and reusable; capacity. The consistency invariant (seat map = player list = seat manager, same seated-in flag, ids unique) is evaluated on every snapshot of every run and the model is compared field by field; batch update leave-then-join is known finding D20.",
 "C04": "Lean theorems about SM.rotateDefault for every seat map, seat count and button position: BB moves to the first live seat clockwise, BB seat dealt in, ring / heads-up seats, refusal rules; 'three seats distinct' and 'refused only when <2 live' in partial form with kernel-checked counter-witnesses (known findings D8, D16). Seat-manager API replayed through the model on thousands of histories per run (2..10 seats, both rules) + small-scope enumeration; scan operands regenerated from the source.",
 "C05": "Proved: a hand deals in exactly the players the seat manager calls active (seated-in, chips, not waiting), at least two, an active player stays active through a rotation, has-chips refresh. Newcomer flag and the three-hand bound are monitored on every run (not yet theorems).",
 "C06": "Proved: facts about the regenerated label table and the label queue for every slot count 2..10 (= the spec's standard order), none outside; labels on seats (labelsOK/labelClaims), engine labels and next-BB order are evaluated on every opened / settled hand of every run and the model's labels are compared with the engine's.",
 "C07": "Proved for every state of the table model: no open when closed / released / hand unsettled / break / blinds unset (nothing changes then); an open raises the game count by exactly one and goes to playing; the count changes nowhere else; settlement → settled; continue → standby|pausing with per-hand fields reset. Status sequence, count, reset and the closed-table guard (regenerated fact) also monitored on every run.",
 "C08": "Proved: pause iff ShouldPause (break or fewer funded players than the minimum), otherwise the gate is set up with count+1 awaiting exactly the seated-in players with chips; when the guards pass the fire reaches the seat manager and a refusal can only come from there. Progress over real time (2 s gate timer) is observed, not proved; rotation refused with two live players is known finding D16.",
 "C09": "Proved for every admissible sequence of external calls and internal ReadyGroup steps of any length (Setup only when quiescent, distinct indexes): never fires before everybody signalled unless timed out, at most once per set-up, every fire reports the current set-up's count with exactly its participants all ready, unknown signals change nothing, repeated signals change no flag. Three kernel-checked schedules show the hypotheses are necessary (D13, D18) and one shows a rebuilt all-ready gate fires again (D24). Real OpenGameManager replayed through the model after every call (quiescent regime) + stress regime for the monitors. Partial: syncsaga memory-level races not modelled.",
 "C10": "Proved for every state, caller, action, amount and backend outcome of the hand-level model: an accepted action passed every guard (hand being played, caller in the hand, ready/pay allowed for him, otherwise his turn, pass allowed, backend accepted; under the monitored pokerface contract the kind is in his allowed list); a refusal changes nothing; an accepted action becomes the last action naming player, seat, action, round, hand and — for pass and the wager actions — exactly one action event. Real engine + real pokerface replayed through the model on every submission; ~40% of submissions are illegal probes judged by the property's own definition with byte-equal table JSON before/after.",
 "C11": "Proved: who is asked at each request point (all for readiness / ante, exactly the positive-blind positions for blinds) and that the request group issues its group call iff somebody is asked and every asked player answered (any order, repetitions, strangers), or on timeout; kernel-checked witness for the ante-only structure (D17). Asked sets and 'no advance before all answered' are also evaluated on every request of every run. Partial: the 17 s timer and pokerface termination are not proved (monitored: every hand must settle).",
 "C13": "Proved: a backend failure on a player action returns an error and leaves table and hand unchanged, the retry meets the same state, and any sequence of submissions ends where its accepted subsequence ends (erasure), for every ok/fail pattern. Fault-injecting backend on real hands: failures of player actions (error returned, byte-equal JSON, retry accepted) and of the engine's own steps (must appear on the error callback).",
 "C14": "Proved as invariants over every sequence of hand-level events: counters = accepted wager actions / calls / checks, raises ≤ actions, fold flag ⇔ fold accepted, did ⇒ chance and at most one 3-bet flag (under the monitored StableEvent contract; the event symbol is a regenerated fact), cleared between hands. Statistics compared field by field with the engine after every delivered state; the same predicates are evaluated at every settlement.",
 "C15": "Proved: deadline = delivery time + action time exactly when a betting round asks an unmoved player for a wager action; cleared at RoundClosed and between hands; unchanged otherwise; an extension adds exactly the requested seconds, any number of times. Partial: that the delivery time is the wall-clock time of the request is observed with a bracket on every such state.",
 "C12": "Proved: the published hand blinds are the BlindState at the open; UpdateBlind / settlement / continue do not touch them; break ⇒ no open, continue pauses, create-on-break starts paused; the single read in startGame is a regenerated fact. Options received by the backend are compared with the blinds at open on every hand of every run.",
 "C18": "Proved under the monitored pokerface contract PF.wf: every raise / bet the bot's dice can choose is allowed, non-empty, accepted by the engine's guards, within the stack and (all-in or) at least the minimum; every other move is an allowed kind; ready / pass / the posted payment otherwise; non-empty move set whenever asked; silent when not at the table, not seated-in, no hand, stale or repeated view, table not playing, not dealt in. Real bots on real tables every run: each move must be in the modelled set and accepted, each all-bot hand must settle.",
 "C19": "Proved for every hand state: auto-play yields ready, check, fold, a payment of exactly the posted ante / blind, or nothing — never call / bet / raise / all-in — with the precedence ready > check > fold > pay; pass at once; suspended: at once; otherwise the time bank is armed with the action time and nothing happens before. Order of the if-chain is a regenerated fact; real playerRunner compared on thousands of real states incl. timed cases.",
 "C20": "Proved: for every hand state and any table status a non-system observer is shown no deck, no burned cards, no hole cards / strength while the hand runs and none of folded players after it closed (filter condition is a regenerated fact; AsObserver is a monitored contract); in the heap model of the adapter's marshal/unmarshal copy a write through one actor's copy reaches nobody else. Partial: aliasing itself is checked at run time (pointers, byte equality, tamper test) on every case.",
 "C16": "Partial (a theorem cannot exhibit a schedule). Proved: the lock discipline over regenerated facts; a successful fixed or random assignment never touches an occupied seat and a refused one changes nothing; the ledger balances after every sequence (hence every order of racing calls); a wager action is accepted only from the current player of the state it meets, so two different players cannot both be accepted against one state. Searched every run: goroutine bursts linearised from in-lock notifications and replayed through the TB model (every intermediate and the final state incl. seat manager), simultaneous submissions at every betting decision, parallel seat-manager assignments; process crash = observation.",
 "C17": "Forwarding discipline decided over the whole regenerated manager table (every method: lookup, not-found error, same-named engine method, arguments in order, returns its result; exactly Close/Release delete, after the call); isolation / forwarding / not-found / forgotten-after-close proved for the registry model over an arbitrary engine; behavioural tie: all 22 forwarding methods driven through one shared manager holding every table of the run (mgr mode), per-table traces replayed through the TB / HD models, the call log through the MG registry model, an idle twin table byte-compared around every call.",
}

def main():
    props = [json.loads(l) for l in open('/verif/properties.jsonl')]
    claimed = [p["id"] for p in props if p["id"] in PROPS and p["id"] in CLAIMS]
    checks = []
    for pid in claimed:
        checks.append({
            "property_id": pid,
            "quick_cmd": "./check %s --tier quick" % pid,
            "thorough_cmd": "./check %s --tier thorough" % pid,
            "evidence_file": "/verif/evidence/%s.json" % pid,
            "replay_cmd_template": "./check %s --replay {path}" % pid,
            "engine": "lean-proof+differential",
            "level_claimed": {"category": "proof", "text": CLAIMS[pid], "design_ref": "DESIGN.md §6 %s, §13" % pid},
            "level_note": NOTE,
            "technique": TECH,
        })
    na = [{"property_id": p["id"], "reason": "machinery for this property is still being built in this session (model layer not yet committed); it will be claimed once its theorems and correspondence check are in"}
          for p in props if p["id"] not in claimed]
    m = {"version": 1, "setup_cmd": "./setup.sh",
         "hooks": {"guard": "verif", "enable": "go build -tags verif (harness module replaces github.com/weedbox/pokertable => /repo)",
                   "baseline_off_cmd": "cd /repo && GOFLAGS=-mod=mod GOPROXY=off GOSUMDB=off go test -mod=mod -json -vet=off -count=1 -timeout 25m ./...",
                   "source_commits": ["d0f1774", "40b9249"], "add_only": True},
         "engines": [{"name": "lean-proof+differential", "path": "/verif/check", "serves_properties": claimed,
                      "kind_free_text": "Lean 4 models + theorems (lean/), Go differential harness (harness/), go/ast fact extractor (extract/), python orchestrator (check)"}],
         "checks": checks, "not_applicable": na,
         "notes": "see DESIGN.md; known_findings.json lists recorded defects and fix: commits"}
    json.dump(m, open('/verif/MANIFEST.json', 'w'), indent=1)
    print("claimed:", claimed)

main()
