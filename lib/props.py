"""Per-property configuration of ./check: which harness modes feed which model layer, which monitor classes
belong to the property, what is trusted.  (Theorem lists are read from lean/PokerVerif/Props/<ID>.lean.)"""

TB_COMMON = [
    "Lean 4.33.0 kernel (axioms per theorem listed under coverage.theorems; allowed: propext, Classical.choice, Quot.sound)",
    "hand-written Lean model of the Go code, tied by the differential replay of this run (coverage measured above) and by facts regenerated from the source (lean/PokerVerif/Generated/Facts.lean)",
    "fact extractor /verif/extract (go/ast), Go harness /verif/harness, Lean driver parser (lean/Main.lean, PokerVerif/Drv)",
    "the transcription of the property into the Lean statements in lean/PokerVerif/Props/<ID>.lean",
]

SM_RULE = ("random seat-manager histories (2..10 seats, default/short-deck/unsupported rule; arrivals by fixed and random seat, "
           "late joins, busts, re-buys, departures, malformed batches, 1..14 rotations) driven through the real seat_manager API; "
           "every operation is replayed through the Lean model and the resulting full state compared; a history is non-trivial "
           "when it contains at least one InitPositions/RotatePositions call; distinct = distinct operation sequences (FNV-64 of the trace text)")

PROPS = {
    "C04": {
        "layers": ["sm"],
        "classes": ["C04."],
        "modes": {
            "quick": [{"mode": "sm", "args": ["-n", 3000, "-enum", 3, "-enumseats", 3]}],
            "thorough": [{"mode": "sm", "args": ["-n", 150000, "-enum", 4, "-enumseats", 4], "timeout": 3000}],
            "search": [{"mode": "sm", "args": ["-n", 60000]}],
        },
        "rule": SM_RULE,
        "trusted_base": TB_COMMON + ["Go map-iteration order only influences which error a multi-problem AssignSeats batch reports (model returns the set)"],
        "assumptions": ["randomness of the seat manager (shuffled seats, first big-blind seat) enters the model as a recorded choice, checked for legality"],
        "extra_obligations": [],
    },
}
