"""Per-property configuration of ./check: which harness modes feed which model layer, which monitor classes
belong to the property, what is trusted.  (Theorem lists are read from lean/PokerVerif/Props/<ID>.lean.)"""

TB_COMMON = [
    "Lean 4.33.0 kernel (axioms per theorem listed under coverage.theorems; allowed: propext, Classical.choice, Quot.sound)",
    "hand-written Lean model of the Go code, tied by the differential replay of this run (coverage measured above) and by facts regenerated from the source (lean/PokerVerif/Generated/Facts.lean)",
    "fact extractor /verif/extract (go/ast), Go harness /verif/harness, Lean driver parser (lean/Main.lean, PokerVerif/Drv)",
    "the transcription of the property into the Lean statements in lean/PokerVerif/Props/<ID>.lean",
]

SM_RULE = ("random seat-manager histories (2..10 seats, default/short-deck/unsupported rule; arrivals by fixed and random seat, "
           "late joins, busts, re-buys, departures, malformed batches, 1..14 rotations) driven through the real seat_manager API; "
           "every operation is replayed through the Lean model and the resulting full state compared; a history is non-trivial "
           "when it contains at least one InitPositions/RotatePositions call; distinct = distinct operation sequences (FNV-64 of the trace text)")

TB_RULE = ("random table histories on the real table engine with a synthetic hand backend (arbitrary chip-conserving results incl. busts and split pots): "
           "2..10 seats, CT/cash/MTT, arrivals by fixed/random seat and batch, late joins, re-buys, add-ons (also during hands), departures, blind updates, "
           "malformed membership calls, up to 8 hands; every operation and internal event (gate fire, settlement, continue) is replayed through the Lean TB model "
           "and the full observable state (table, seat manager, gate) compared; monitors evaluate the property on the implementation's snapshots; "
           "non-trivial = at least one hand opened; distinct = distinct trace texts (FNV-64)")

def tb_modes(nq=60, nt=1500, ns=400):
    return {
        "quick": [{"mode": "table", "args": ["-n", nq, "-hands", 8], "timeout": 900}],
        "thorough": [{"mode": "table", "args": ["-n", nt, "-hands", 10, "-workers", 16], "timeout": 3000}],
        "search": [{"mode": "table", "args": ["-n", ns, "-hands", 8, "-workers", 16], "timeout": 1500}],
    }

TB_ASSUME = ["the hand engine is a parameter of the TB model: each settlement carries the result the backend produced; contract ResultConserves (zero-sum, one entry per participant) is monitored on every real result",
             "asynchronous happenings (gate fire, hand close, continue tick, auto-join completion) are explicit events placed where the harness observed them; the 17 s auto-join timer and the 2 s gate timer are not modelled as clocks",
             "randomness (random seats, first big-blind seat) enters as recorded choices checked for legality"]

def tb_prop(classes, extra_tb=None):
    return {"layers": ["tb"], "classes": classes + ["CRASH."], "modes": tb_modes(), "rule": TB_RULE,
            "trusted_base": TB_COMMON + (extra_tb or []), "assumptions": TB_ASSUME, "extra_obligations": []}

def win_modes(nq=60, nt=6000, ns=1200):
    """table histories + lock-free calls placed at a chosen seat-manager call inside openGame (conc mode -windows, hook WrapSeatManager)"""
    m = tb_modes()
    def c(n, w):
        return {"mode": "conc", "args": ["-n", 0, "-actions", 0, "-sm", 0, "-windows", n] + (["-workers", 16] if w else []), "replayable": False}
    return {"quick": m["quick"] + [c(nq, False)], "thorough": m["thorough"] + [c(nt, True)], "search": m["search"] + [c(ns, True)]}

PROPS = {
    "C01": {**tb_prop(["C01."]), "layers": ["tb", "cc"],
            "modes": {"quick": tb_modes()["quick"] + [{"mode": "conc", "args": ["-n", 0, "-actions", 0, "-sm", 0, "-topups", 6, "-windows", 60], "replayable": False}],
                      "thorough": tb_modes()["thorough"] + [{"mode": "conc", "args": ["-n", 0, "-actions", 0, "-sm", 0, "-topups", 200, "-windows", 6000, "-workers", 16], "replayable": False}],
                      "search": tb_modes()["search"] + [{"mode": "conc", "args": ["-n", 0, "-actions", 0, "-sm", 0, "-topups", 40, "-windows", 1200, "-workers", 16], "replayable": False}]}},
    # (round 7: "every action accepted for entry i was submitted by that player" is judged on real hands — hand mode, probes by
    # strangers, bystanders and players of earlier hands — as well)
    "C02": {**tb_prop(["C02."]), "layers": ["tb", "cc", "hd"],
            "modes": {"quick": win_modes()["quick"] + [{"mode": "hand", "args": ["-n", 32, "-hands", 3], "timeout": 900}],
                      "thorough": win_modes()["thorough"] + [{"mode": "hand", "args": ["-n", 1200, "-hands", 4, "-workers", 16], "timeout": 3000}],
                      "search": win_modes()["search"] + [{"mode": "hand", "args": ["-n", 300, "-hands", 3, "-workers", 16], "timeout": 1500}]}},
    "C03": {**tb_prop(["C03."]), "layers": ["tb", "sm", "cc"],
            "modes": {"quick": win_modes()["quick"] + [{"mode": "sm", "args": ["-n", 2000]}],
                      "thorough": win_modes()["thorough"] + [{"mode": "sm", "args": ["-n", 100000, "-enum", 4, "-enumseats", 3]}],
                      "search": win_modes()["search"] + [{"mode": "sm", "args": ["-n", 40000]}]}},
    "C05": tb_prop(["C05."]),
    "C06": tb_prop(["C06."]),
    "C07": tb_prop(["C07."]),
    "C08": {**tb_prop(["C08."]), "layers": ["tb", "sm"],
            "modes": {"quick": tb_modes()["quick"] + [{"mode": "sm", "args": ["-n", 2000]}],
                      "thorough": tb_modes()["thorough"] + [{"mode": "sm", "args": ["-n", 100000, "-enum", 4, "-enumseats", 3]}],
                      "search": tb_modes()["search"] + [{"mode": "sm", "args": ["-n", 40000]}]}},
    "C12": {**tb_prop(["C12."]), "layers": ["tb", "cc"], "modes": win_modes()},
    "C04": {
        "layers": ["sm"],
        "classes": ["C04."],
        "modes": {
            "quick": [{"mode": "sm", "args": ["-n", 3000, "-enum", 3, "-enumseats", 3]}],
            "thorough": [{"mode": "sm", "args": ["-n", 150000, "-enum", 4, "-enumseats", 4], "timeout": 3000}],
            "search": [{"mode": "sm", "args": ["-n", 60000]}],
        },
        "rule": SM_RULE,
        "trusted_base": TB_COMMON + ["Go map-iteration order only influences which error a multi-problem AssignSeats batch reports (model returns the set)"],
        "assumptions": ["randomness of the seat manager (shuffled seats, first big-blind seat) enters the model as a recorded choice, checked for legality"],
        "extra_obligations": [],
    },
    **{pid: {
        "layers": ["hd"], "classes": [pid + ".", "CONTRACT.", "CRASH."],
        "modes": {"quick": [{"mode": "hand", "args": ["-n", 64, "-hands", 3], "timeout": 900}],
                  "thorough": [{"mode": "hand", "args": ["-n", 2500, "-hands", 4, "-workers", 16], "timeout": 3000}],
                  "search": [{"mode": "hand", "args": ["-n", 600, "-hands", 3, "-workers", 16], "timeout": 1500}]},
        "rule": ("random multi-hand histories on the real table engine with the real pokerface engine behind a recording / fault-injecting backend: 2..7 participants "
                 "(plus a sitting-out player), stacks 15..3500, structures sb-bb / ante / dealer blind / no SB; every request is answered (random order, repeated answers), "
                 "every decision point is probed with illegal submissions (stranger, not dealt in, out of turn, disallowed kind, no hand running), random legal betting lines "
                 "with legal amounts, deadline extensions, injected backend failures of player actions (then retried) and of the engine's own steps; every submission and every "
                 "hand state reaching the table is replayed through the Lean HD model (result class, statistics, last action, deadline) and the monitors run on the "
                 "implementation's snapshots; non-trivial = at least one hand settled; distinct = distinct trace texts"),
        "trusted_base": TB_COMMON + ["pokerface (hand rules) is an oracle of the model: each backend call carries the outcome the real engine produced; contracts PF.wf / PF.accepts / StableEvent are monitored on every state and action of every run (class CONTRACT.*)"],
        "assumptions": ["table status at the moment of a call and the engine clock at the moment a state is delivered are inputs of the model (scheduler / wall clock)",
                        "the harness submits only at quiescent points (the last state the backend returned has reached the table)"],
        "extra_obligations": [],
    } for pid in ["C10", "C11", "C13", "C14", "C15"]},

    **{pid: {
        "layers": ["ac"], "classes": [pid + ".", "CONTRACT."],
        "modes": {"quick": [{"mode": "actor", "args": ["-n", 16, "-hands", 3, "-playercases", 1500, "-playertimed", 24, "-observercases", 1500, "-botcases", 300], "timeout": 900}],
                  "thorough": [{"mode": "actor", "args": ["-n", 300, "-hands", 5, "-playercases", 40000, "-playertimed", 200, "-observercases", 40000, "-botcases", 6000, "-workers", 16], "timeout": 3000}],
                  "search": [{"mode": "actor", "args": ["-n", 80, "-hands", 4, "-playercases", 8000, "-playertimed", 48, "-observercases", 8000, "-botcases", 1500, "-workers", 16], "timeout": 1500}]},
        "rule": ("(1) all-bot tables: real botRunner instances wired through the real tableEngineAdapter to a real table engine with real pokerface, 2..7 bots, stacks from 1 chip, "
                 "several blind structures, played for several hands; every table update each bot receives is recorded with the move it made (or none) and the engine's answer; "
                 "(2) real playerRunner instances (running / idle / suspended, action time 0 and 1 s) fed with the hand states collected from (1), with a recording adapter and timestamps; "
                 "(3) real observerRunner + real tableEngineAdapter fed with the same states under every table status, system and non-system, 1..5 actors in random attach order, "
                 "with pointer and byte comparisons of engine table / other actors' copies before and after, and a write through the observer's copy; every line is compared with the Lean AC model; "
                 "non-trivial = a move / a shown hand state; distinct = distinct trace lines"),
        "trusted_base": TB_COMMON + ["pokerface's GetAvailableActions / acceptance guards / AsObserver are transcribed as PF.available, PF.accepts, AC.asObserver (contracts, monitored against the real functions in every run)",
                                     "the bot's dice are a relation in the model (set of moves with amount intervals): the real move must be a member"],
        "assumptions": ["timers (bot humanised delay, thinking time) are observed with tolerances, not proved"],
        "extra_obligations": [],
    } for pid in ["C18", "C19", "C20"]},
    "C09": {
        "layers": ["ogm"], "classes": ["C09."],
        "modes": {"quick": [{"mode": "ogm", "args": ["-n", 400, "-stress", 300]}],
                  "thorough": [{"mode": "ogm", "args": ["-n", 6000, "-stress", 20000, "-timeoutevery", 4], "timeout": 3000}],
                  "search": [{"mode": "ogm", "args": ["-n", 3000, "-stress", 3000]}]},
        "rule": ("random call sequences on the real OpenGameManager in the quiescent regime (a 2.5 ms pause after every call lets the ReadyGroup's goroutines drain): "
                 "Setup with 0..7 participants (occasionally two ids on one index), Ready of awaited / unknown / repeated ids, waiting for the 1 s timeout, rebuilding "
                 "from GetState(); after every call gameCount, participants and the callbacks fired are compared with the Lean OGM model (drained); plus a concurrent stress "
                 "regime (Ready racing Setup) that only feeds the monitors; non-trivial = at least one Setup; distinct = distinct trace texts"),
        "trusted_base": TB_COMMON + ["syncsaga.ReadyGroup is modelled (queue / consume / complete steps), not verified; its memory-level races are outside the model"],
        "assumptions": ["theorems assume Setup is called when the group is quiescent and participant indexes are distinct (discharged for the table engine's own call sites by construction; witnesses show both are necessary)",
                        "wall-clock timeout enters as an event"],
        "extra_obligations": [],
    },
    "C16": {
        "layers": ["tb", "cc"], "classes": ["C16."],
        "modes": {"quick": [{"mode": "conc", "args": ["-n", 120, "-actions", 12, "-sm", 300, "-openvs", 18], "timeout": 900}],
                  "thorough": [{"mode": "conc", "args": ["-n", 6000, "-actions", 300, "-sm", 20000, "-openvs", 1400, "-workers", 14], "timeout": 3400}],
                  "search": [{"mode": "conc", "args": ["-n", 1500, "-actions", 60, "-sm", 4000, "-openvs", 140, "-workers", 14], "timeout": 2000}]},
        "rule": ("bursts in child processes: (a) 2..64 goroutines released together fire PlayerReserve (fixed seats that may collide, random seats), PlayersLeave and "
                 "UpdateTablePlayers at one table (2..10 seats, some players seated before); the burst is linearised from the notifications the engine emits inside its lock "
                 "(each step explained by exactly one successful call; departures of failed batch updates, finding D20, by those) and replayed through the TB model, which must "
                 "reproduce every intermediate snapshot and the final table + seat-manager state; direct checks: no seat twice, nobody lost or duplicated, capacity; "
                 "(b) at every betting decision of real hands every participant submits every action kind at once: accepted actions must pair with the backend calls applied and "
                 "each must come from the current player of the state it was applied to; the hand must settle with chips conserved; (c) 2..31 goroutines assign fixed / random "
                 "seats on a bare seat manager; (d) a membership call is queued on the engine lock behind another (started from the first one's listener, which is notified "
                 "with the lock held) when the gate fires, so that the open has calls waiting in front of it and behind it: a reservation / departure that returned nil must show "
                 "afterwards and table and seat manager must agree seat by seat; non-trivial = a burst with at least two successful calls; distinct = distinct linearised traces"),
        "trusted_base": TB_COMMON + ["the Go scheduler decides the interleavings that are explored; no tool here can force one"],
        "assumptions": ["operations that hold the engine lock for their whole body are atomic steps of the model; which order results is observed, not chosen"],
        "extra_obligations": [],
    },
    "C17": {
        "layers": ["mg", "tb", "hd"], "classes": ["C17.", "CRASH."],
        "modes": {"quick": [{"mode": "mgr", "args": ["-ntable", 40, "-nhand", 16], "timeout": 900}],
                  "thorough": [{"mode": "mgr", "args": ["-ntable", 1200, "-nhand", 400, "-hands", 8, "-workers", 14], "timeout": 3000}],
                  "search": [{"mode": "mgr", "args": ["-ntable", 300, "-nhand", 100, "-workers", 14], "timeout": 1500}]},
        "rule": ("the table-level histories (synthetic hand backend) and the hand-level histories (real pokerface) of the other checks, but with every one of the 22 forwarding "
                 "methods called through ONE shared pokertable.Manager in which all tables of all workers are registered at the same time (engines built by the harness are "
                 "registered through the verif hook VerifManagerStore; a twin table is created by the manager's own CreateTable); every call is bracketed by byte snapshots of the "
                 "idle twin table (must not change), one call in nine is preceded by a call of a random method on an id that was never registered, half of the table histories end "
                 "with CloseTable / ReleaseTable through the manager followed by more calls, the run ends with closing the twin and Reset; per-table traces are replayed through the "
                 "TB / HD models (a manager that forwards to another method or table, permutes arguments or drops a result is a mismatch there), the call log through the MG registry "
                 "model (table-not-found exactly for unknown / closed / released ids); non-trivial = a history with at least one forwarded call; distinct = distinct trace texts"),
        "trusted_base": TB_COMMON + ["the verif hook VerifManagerStore stores an engine in the manager's map exactly as CreateTable does (4 lines, build tag verif)"],
        "control_modes": [{"mode": "table", "args": ["-n", 60, "-hands", 6], "timeout": 900}, {"mode": "hand", "args": ["-n", 32, "-hands", 2], "timeout": 900}],
        "control_layers": ["tb", "hd"], "control_class": "C17.call-through-the-manager-differs-from-the-engine-call",
        "assumptions": ["the extractor recognises the manager's method bodies (fails closed on any other shape)",
                        "the engines are the TB / HD models' engines: what an engine answers is decided by those layers' replays in the same run"],
        "extra_obligations": [],
    },
}

# C11 also waits out real response time-outs (17 s each, all at once): one asked player stays silent at a ready / ante /
# blind request of a ring hand, everybody else answers, the hand must move on by itself
PROPS["C11"] = {**PROPS["C11"], "modes": {
    "quick": [{"mode": "hand", "args": ["-n", 64, "-hands", 3, "-withhold", 8], "timeout": 900}],
    "thorough": [{"mode": "hand", "args": ["-n", 2500, "-hands", 4, "-workers", 16, "-withhold", 48], "timeout": 3000}],
    "search": [{"mode": "hand", "args": ["-n", 600, "-hands", 3, "-workers", 16, "-withhold", 16], "timeout": 1500}]},
    "rule": PROPS["C11"]["rule"] + "; plus withheld-response histories: at the first ready / ante / blind request of a hand one asked player (at blind requests half of the time the highest game index asked) stays silent, the others answer, and the 17 s response time-out is waited out: the hand must move on by itself, not earlier than the time-out"}

# C10's "applied once" also covers simultaneous submissions (the engine lock serialises the player actions): when its
# proof obligations break, the search also fires action bursts (every participant, every kind, twice, at once)
PROPS["C10"] = {**PROPS["C10"],
    "classes": PROPS["C10"]["classes"] + ["C16.two-actions-applied-against-the-same-hand-state", "C16.accepted-actions-and-applied-backend-calls-differ",
                                          "C16.action-accepted-from-a-player-whose-turn-it-was-not"],
    "modes": {**PROPS["C10"]["modes"],
              # (round 7: since the wrapper returns the state a move produced — D35 — a hand whose *current* state lags behind is
              # visible only to the next caller; the action bursts are part of the quick tier too)
              "quick": PROPS["C10"]["modes"]["quick"] + [{"mode": "conc", "args": ["-n", 0, "-actions", 12, "-sm", 0], "timeout": 900}],
              "thorough": PROPS["C10"]["modes"]["thorough"] + [{"mode": "conc", "args": ["-n", 0, "-actions", 200, "-sm", 0, "-workers", 14], "timeout": 2000}],
              "search": PROPS["C10"]["modes"]["search"] + [{"mode": "conc", "args": ["-n", 0, "-actions", 40, "-sm", 0, "-workers", 14], "timeout": 1500}]}}
