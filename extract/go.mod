module verifextract

go 1.18
