// Fact extractor: reads /repo's current Go sources with go/ast and rewrites
// lean/PokerVerif/Generated/Facts.lean.  It extracts *facts* (operands, call shapes, guard
// statements, tables), not semantics.  It fails closed: a shape it does not recognise is emitted
// as a value no expectation lemma accepts.
package main

import (
	"bytes"
	"fmt"
	"go/ast"
	"go/parser"
	"go/printer"
	"go/token"
	"os"
	"path/filepath"
	"sort"
	"strconv"
	"strings"
)

var fset = token.NewFileSet()

func parseFile(path string) *ast.File {
	f, err := parser.ParseFile(fset, path, nil, parser.ParseComments)
	if err != nil {
		fmt.Fprintln(os.Stderr, "extract: cannot parse", path, err)
		return nil
	}
	return f
}

func src(n ast.Node) string {
	var b bytes.Buffer
	printer.Fprint(&b, fset, n)
	return strings.Join(strings.Fields(b.String()), " ")
}

func findFunc(f *ast.File, recv, name string) *ast.FuncDecl {
	if f == nil {
		return nil
	}
	for _, d := range f.Decls {
		fd, ok := d.(*ast.FuncDecl)
		if !ok || fd.Name.Name != name {
			continue
		}
		if recv == "" {
			if fd.Recv == nil {
				return fd
			}
			continue
		}
		if fd.Recv == nil || len(fd.Recv.List) != 1 {
			continue
		}
		if recvType(fd) == recv {
			return fd
		}
	}
	return nil
}

func recvType(fd *ast.FuncDecl) string {
	if fd.Recv == nil || len(fd.Recv.List) != 1 {
		return ""
	}
	t := fd.Recv.List[0].Type
	if s, ok := t.(*ast.StarExpr); ok {
		t = s.X
	}
	if id, ok := t.(*ast.Ident); ok {
		return id.Name
	}
	return ""
}

func leanStr(s string) string {
	return strconv.Quote(s)
}

// ------------------------------------------------------------------ integer expressions over MaxSeat

// leanIntExpr renders an int expression whose only variable is <recv>.MaxSeat as Lean over `maxSeat`.
func leanIntExpr(e ast.Expr) (string, bool) {
	switch x := e.(type) {
	case *ast.BasicLit:
		if x.Kind == token.INT {
			return "(" + x.Value + " : Int)", true
		}
	case *ast.SelectorExpr:
		if x.Sel.Name == "MaxSeat" {
			return "maxSeat", true
		}
	case *ast.ParenExpr:
		return leanIntExpr(x.X)
	case *ast.BinaryExpr:
		l, ok1 := leanIntExpr(x.X)
		r, ok2 := leanIntExpr(x.Y)
		if ok1 && ok2 {
			switch x.Op {
			case token.ADD:
				return "(" + l + " + " + r + ")", true
			case token.SUB:
				return "(" + l + " - " + r + ")", true
			case token.MUL:
				return "(" + l + " * " + r + ")", true
			}
		}
	}
	return "", false
}

func isIdent(e ast.Expr, name string) bool {
	id, ok := e.(*ast.Ident)
	return ok && id.Name == name
}

func unparen(e ast.Expr) ast.Expr {
	for {
		p, ok := e.(*ast.ParenExpr)
		if !ok {
			return e
		}
		e = p.X
	}
}

// scanFact finds `seatID := (startSeatID + i) % M` or `(startSeatID + A - i) % M` in the function's for loop
// and checks the loop header `for i := 1; i < sm.MaxSeat; i++`.
func scanFact(fd *ast.FuncDecl, backwards bool) (mod string, add string, ok bool) {
	if fd == nil || fd.Body == nil {
		return "", "", false
	}
	var loop *ast.ForStmt
	for _, st := range fd.Body.List {
		if fs, isFor := st.(*ast.ForStmt); isFor {
			loop = fs
			break
		}
	}
	if loop == nil {
		return "", "", false
	}
	if src(loop.Init) != "i := 1" || src(loop.Cond) != "i < sm.MaxSeat" || src(loop.Post) != "i++" {
		return "", "", false
	}
	if len(loop.Body.List) == 0 {
		return "", "", false
	}
	as, isAs := loop.Body.List[0].(*ast.AssignStmt)
	if !isAs || len(as.Lhs) != 1 || len(as.Rhs) != 1 || !isIdent(as.Lhs[0], "seatID") {
		return "", "", false
	}
	be, isBin := as.Rhs[0].(*ast.BinaryExpr)
	if !isBin || be.Op != token.REM {
		return "", "", false
	}
	m, okM := leanIntExpr(be.Y)
	if !okM {
		return "", "", false
	}
	inner, isBin2 := unparen(be.X).(*ast.BinaryExpr)
	if !isBin2 {
		return "", "", false
	}
	if !backwards {
		if inner.Op == token.ADD && isIdent(inner.X, "startSeatID") && isIdent(inner.Y, "i") {
			return m, "(0 : Int)", true
		}
		return "", "", false
	}
	// (startSeatID + A) - i
	if inner.Op != token.SUB || !isIdent(inner.Y, "i") {
		return "", "", false
	}
	l, isBin3 := unparen(inner.X).(*ast.BinaryExpr)
	if !isBin3 || l.Op != token.ADD || !isIdent(l.X, "startSeatID") {
		return "", "", false
	}
	a, okA := leanIntExpr(l.Y)
	if !okA {
		return "", "", false
	}
	return m, a, true
}

// ------------------------------------------------------------------ lock discipline

// startsWithLock reports which lock call opens the method: "Lock", "RLock" or "" (with the matching deferred unlock).
func startsWithLock(fd *ast.FuncDecl, recvVar, field string) string {
	if fd == nil || fd.Body == nil || len(fd.Body.List) < 2 {
		return ""
	}
	first := src(fd.Body.List[0])
	second := src(fd.Body.List[1])
	if first == recvVar+"."+field+".Lock()" && second == "defer "+recvVar+"."+field+".Unlock()" {
		return "Lock"
	}
	if first == recvVar+"."+field+".RLock()" && second == "defer "+recvVar+"."+field+".RUnlock()" {
		return "RLock"
	}
	return ""
}

func methodsOf(files []*ast.File, recv string) []*ast.FuncDecl {
	out := make([]*ast.FuncDecl, 0)
	for _, f := range files {
		if f == nil {
			continue
		}
		for _, d := range f.Decls {
			if fd, ok := d.(*ast.FuncDecl); ok && recvType(fd) == recv {
				out = append(out, fd)
			}
		}
	}
	sort.Slice(out, func(i, j int) bool { return out[i].Name.Name < out[j].Name.Name })
	return out
}

// ------------------------------------------------------------------ manager forwarding table

type mgrRow struct {
	name       string
	params     []string // parameter names after tableID
	lookupOK   bool     // first statement: tableEngine, err := m.GetTableEngine(tableID)
	notFound   bool     // on lookup error returns ErrManagerTableNotFound (as last result)
	callee     string   // engine method called
	args       []string // argument expressions of that call
	returnsIt  bool     // the call's result is what the method returns (or it is a void engine method followed by return nil)
	deletes    bool     // m.tableEngines.Delete(tableID) present
	delAfter   bool     // ... and after the engine call
	recognised bool
}

func paramNames(fd *ast.FuncDecl) []string {
	out := make([]string, 0)
	for _, f := range fd.Type.Params.List {
		for _, n := range f.Names {
			out = append(out, n.Name)
		}
	}
	return out
}

func managerRow(fd *ast.FuncDecl) mgrRow {
	row := mgrRow{name: fd.Name.Name}
	ps := paramNames(fd)
	if len(ps) == 0 || ps[0] != "tableID" {
		return row
	}
	row.params = ps[1:]
	body := fd.Body.List
	if len(body) < 3 {
		return row
	}
	if src(body[0]) != "tableEngine, err := m.GetTableEngine(tableID)" {
		return row
	}
	row.lookupOK = true
	ifs, ok := body[1].(*ast.IfStmt)
	if !ok || src(ifs.Cond) != "err != nil" || len(ifs.Body.List) != 1 {
		return row
	}
	ret, ok := ifs.Body.List[0].(*ast.ReturnStmt)
	if !ok || len(ret.Results) == 0 || src(ret.Results[len(ret.Results)-1]) != "ErrManagerTableNotFound" {
		return row
	}
	row.notFound = true
	rest := body[2:]
	// locate the single engine call
	callIdx := -1
	var call *ast.CallExpr
	for i, st := range rest {
		ast.Inspect(st, func(n ast.Node) bool {
			if c, ok := n.(*ast.CallExpr); ok {
				if sel, ok := c.Fun.(*ast.SelectorExpr); ok && isIdent(sel.X, "tableEngine") {
					if call != nil && c != call {
						callIdx = -2 // more than one engine call
					} else if call == nil {
						call = c
						callIdx = i
					}
				}
			}
			return true
		})
	}
	if call == nil || callIdx < 0 {
		return row
	}
	row.callee = call.Fun.(*ast.SelectorExpr).Sel.Name
	for _, a := range call.Args {
		row.args = append(row.args, src(a))
	}
	delIdx := -1
	for i, st := range rest {
		if src(st) == "m.tableEngines.Delete(tableID)" {
			row.deletes = true
			delIdx = i
		}
	}
	row.delAfter = row.deletes && delIdx > callIdx
	// shapes accepted for "returns the engine's result":
	//  (a) return tableEngine.X(args)
	//  (b) tableEngine.X(args); return nil                      (void engine method)
	//  (c) if err := tableEngine.X(args); err != nil { return err }; [delete]; return nil
	switch {
	case len(rest) == 1 && src(rest[0]) == "return "+src(call):
		row.returnsIt = true
	case len(rest) == 2 && src(rest[0]) == src(call) && src(rest[1]) == "return nil":
		row.returnsIt = true
	case len(rest) >= 2 && strings.HasPrefix(src(rest[0]), "if err := "+src(call)+"; err != nil { return err }") && src(rest[len(rest)-1]) == "return nil":
		ok := true
		for _, st := range rest[1 : len(rest)-1] {
			if src(st) != "m.tableEngines.Delete(tableID)" {
				ok = false
			}
		}
		row.returnsIt = ok
	}
	row.recognised = true
	return row
}

func leanList(xs []string) string {
	q := make([]string, len(xs))
	for i, x := range xs {
		q[i] = leanStr(x)
	}
	return "[" + strings.Join(q, ", ") + "]"
}

func leanBool(b bool) string {
	if b {
		return "true"
	}
	return "false"
}

// ------------------------------------------------------------------ misc single facts

// settleMode: how settleGame writes the result into the bankroll
func settleMode(fd *ast.FuncDecl) string {
	mode := "unknown"
	if fd == nil {
		return mode
	}
	n := 0
	ast.Inspect(fd, func(nd ast.Node) bool {
		as, ok := nd.(*ast.AssignStmt)
		if !ok || len(as.Lhs) != 1 {
			return true
		}
		if src(as.Lhs[0]) == "playerState.Bankroll" {
			n++
			mode = as.Tok.String() + " " + src(as.Rhs[0])
		}
		return true
	})
	if n != 1 {
		return "unknown"
	}
	return mode
}

// positionTable: the switch in newPositions
func positionTable(fd *ast.FuncDecl, consts map[string]string) ([]int, [][]string, bool) {
	counts := []int{}
	rows := [][]string{}
	if fd == nil || fd.Body == nil || len(fd.Body.List) != 1 {
		return nil, nil, false
	}
	sw, ok := fd.Body.List[0].(*ast.SwitchStmt)
	if !ok || src(sw.Tag) != "playerCount" {
		return nil, nil, false
	}
	for _, c := range sw.Body.List {
		cc := c.(*ast.CaseClause)
		if cc.List == nil { // default
			if len(cc.Body) != 1 || src(cc.Body[0]) != "return make([]string, 0)" {
				return nil, nil, false
			}
			continue
		}
		if len(cc.List) != 1 || len(cc.Body) != 1 {
			return nil, nil, false
		}
		n, err := strconv.Atoi(src(cc.List[0]))
		if err != nil {
			return nil, nil, false
		}
		ret, ok := cc.Body[0].(*ast.ReturnStmt)
		if !ok || len(ret.Results) != 1 {
			return nil, nil, false
		}
		lit, ok := ret.Results[0].(*ast.CompositeLit)
		if !ok {
			return nil, nil, false
		}
		row := []string{}
		for _, e := range lit.Elts {
			v, ok := consts[src(e)]
			if !ok {
				return nil, nil, false
			}
			row = append(row, v)
		}
		counts = append(counts, n)
		rows = append(rows, row)
	}
	return counts, rows, true
}

func stringConsts(files []*ast.File) map[string]string {
	out := map[string]string{}
	for _, f := range files {
		if f == nil {
			continue
		}
		for _, d := range f.Decls {
			gd, ok := d.(*ast.GenDecl)
			if !ok || gd.Tok != token.CONST {
				continue
			}
			for _, s := range gd.Specs {
				vs := s.(*ast.ValueSpec)
				for i, n := range vs.Names {
					if i < len(vs.Values) {
						if bl, ok := vs.Values[i].(*ast.BasicLit); ok && bl.Kind == token.STRING {
							v, _ := strconv.Unquote(bl.Value)
							out[n.Name] = v
						}
					}
				}
			}
		}
	}
	return out
}

// firstStmts returns the normalised source of the first n statements of a function body
func stmtSrcs(fd *ast.FuncDecl) []string {
	out := []string{}
	if fd == nil || fd.Body == nil {
		return out
	}
	for _, s := range fd.Body.List {
		out = append(out, src(s))
	}
	return out
}

// hasActionChain: the sequence of gs.HasAction(playerIdx, "<x>") conditions of the if / else-if chain that opens the body
func hasActionChain(fd *ast.FuncDecl) ([]string, []string) {
	conds := []string{}
	acts := []string{}
	if fd == nil || fd.Body == nil {
		return conds, acts
	}
	var ifs *ast.IfStmt
	for _, s := range fd.Body.List {
		if x, ok := s.(*ast.IfStmt); ok {
			ifs = x
			break
		}
	}
	for ifs != nil {
		conds = append(conds, src(ifs.Cond))
		if len(ifs.Body.List) >= 1 {
			acts = append(acts, src(ifs.Body.List[0]))
		} else {
			acts = append(acts, "")
		}
		next, ok := ifs.Else.(*ast.IfStmt)
		if !ok {
			break
		}
		ifs = next
	}
	return conds, acts
}

func main() {
	repo := "/repo"
	out := "/verif/lean/PokerVerif/Generated/Facts.lean"
	if len(os.Args) > 1 {
		repo = os.Args[1]
	}
	if len(os.Args) > 2 {
		out = os.Args[2]
	}
	os.Remove(out)

	smInternal := parseFile(filepath.Join(repo, "seat_manager", "seat_manager_internal.go"))
	smImpl := parseFile(filepath.Join(repo, "seat_manager", "seat_manager_impl.go"))
	mgr := parseFile(filepath.Join(repo, "manager.go"))
	te := parseFile(filepath.Join(repo, "table_engine.go"))
	teInt := parseFile(filepath.Join(repo, "table_engine_internal.go"))
	teStage := parseFile(filepath.Join(repo, "table_engine_stage.go"))
	gameF := parseFile(filepath.Join(repo, "game.go"))
	stats := parseFile(filepath.Join(repo, "game_statistics.go"))
	pos := parseFile(filepath.Join(repo, "position.go"))
	constsF := parseFile(filepath.Join(repo, "constants.go"))
	obs := parseFile(filepath.Join(repo, "actor", "observer_runner.go"))
	playerR := parseFile(filepath.Join(repo, "actor", "player_runner.go"))
	botR := parseFile(filepath.Join(repo, "actor", "bot_runner.go"))
	adapter := parseFile(filepath.Join(repo, "actor", "table_engine_adapter.go"))
	tableF := parseFile(filepath.Join(repo, "table.go"))

	var b strings.Builder
	w := func(format string, a ...interface{}) { fmt.Fprintf(&b, format+"\n", a...) }
	w("-- GENERATED by /verif/extract from %s's current source. Do not edit; rewritten on every run.", repo)
	w("namespace Facts")
	w("")

	// ---- seat-manager scans
	type scanSpec struct {
		fn, modName, addName string
		back                bool
	}
	allScans := true
	for _, s := range []scanSpec{
		{"nextOccupiedSeatID", "nextActiveMod", "", false},
		{"nextInAndHasChipsSeatID", "nextAliveMod", "", false},
		{"previousOccupiedSeatID", "prevOccMod", "prevOccAdd", true},
		{"previousOccupiedAliveSeatID", "prevAliveMod", "prevAliveAdd", true},
	} {
		m, a, ok := scanFact(findFunc(smInternal, "seatManager", s.fn), s.back)
		if !ok {
			allScans = false
			m, a = "(0 : Int)", "(0 : Int)"
			w("-- UNRECOGNISED shape in %s", s.fn)
		}
		w("/-- modulus operand of the circular scan in `%s`, as a function of MaxSeat -/", s.fn)
		w("def %s (maxSeat : Int) : Int := let _ := maxSeat; %s", s.modName, m)
		if s.back {
			w("def %s (maxSeat : Int) : Int := let _ := maxSeat; %s", s.addName, a)
		}
	}
	w("def scansRecognised : Bool := %s", leanBool(allScans))
	w("")

	// ---- lock discipline
	teFiles := []*ast.File{te, teInt, teStage, stats}
	w("/-- tableEngine methods whose body opens with `te.lock.Lock(); defer te.lock.Unlock()` -/")
	locked := []string{}
	for _, fd := range methodsOf(teFiles, "tableEngine") {
		if startsWithLock(fd, "te", "lock") == "Lock" {
			locked = append(locked, fd.Name.Name)
		}
	}
	w("def teLocked : List String := %s", leanList(locked))
	// … and that mention the lock anywhere else in their body (a window in which the lock is let go)
	reLock := []string{}
	for _, fd := range methodsOf(teFiles, "tableEngine") {
		if startsWithLock(fd, "te", "lock") != "Lock" || fd.Body == nil {
			continue
		}
		n := 0
		ast.Inspect(fd.Body, func(x ast.Node) bool {
			if sel, ok := x.(*ast.SelectorExpr); ok && src(sel.X) == "te.lock" {
				n++
			}
			return true
		})
		if n != 2 {
			reLock = append(reLock, fmt.Sprintf("%s:%d", fd.Name.Name, n))
		}
	}
	w("/-- locked tableEngine methods whose body mentions `te.lock` other than in the opening `Lock(); defer Unlock()` -/")
	w("def teLockWindows : List String := %s", leanList(reLock))
	// … and the methods that replace the live table object (a call that takes no lock and writes into the table would be
	// forgotten if a locked step swapped the table for a copy made earlier: D31)
	replaces := []string{}
	for _, fd := range methodsOf(teFiles, "tableEngine") {
		if fd.Body == nil {
			continue
		}
		hit := false
		ast.Inspect(fd.Body, func(x ast.Node) bool {
			if as, ok := x.(*ast.AssignStmt); ok {
				for _, l := range as.Lhs {
					if src(l) == "te.table" {
						hit = true
					}
				}
			}
			return true
		})
		if hit {
			replaces = append(replaces, fd.Name.Name)
		}
	}
	w("/-- tableEngine methods that assign `te.table` (replace the live table object) -/")
	w("def teTableAssigned : List String := %s", leanList(replaces))
	smLocked := []string{}
	smRLocked := []string{}
	for _, fd := range methodsOf([]*ast.File{smImpl, smInternal}, "seatManager") {
		switch startsWithLock(fd, "sm", "mu") {
		case "Lock":
			smLocked = append(smLocked, fd.Name.Name)
		case "RLock":
			smRLocked = append(smRLocked, fd.Name.Name)
		}
	}
	w("def smLocked : List String := %s", leanList(smLocked))
	w("def smRLocked : List String := %s", leanList(smRLocked))
	w("")

	// ---- manager forwarding table
	w("structure MgrRow where")
	w("  name : String")
	w("  params : List String")
	w("  lookupOK : Bool")
	w("  notFound : Bool")
	w("  callee : String")
	w("  args : List String")
	w("  returnsIt : Bool")
	w("  deletes : Bool")
	w("  delAfter : Bool")
	w("  recognised : Bool")
	w("deriving Repr, DecidableEq")
	w("")
	rows := []string{}
	skipped := []string{}
	for _, fd := range methodsOf([]*ast.File{mgr}, "manager") {
		switch fd.Name.Name {
		case "Reset", "GetTableEngine", "CreateTable":
			skipped = append(skipped, fd.Name.Name)
			continue
		}
		r := managerRow(fd)
		rows = append(rows, fmt.Sprintf("  { name := %s, params := %s, lookupOK := %s, notFound := %s, callee := %s, args := %s, returnsIt := %s, deletes := %s, delAfter := %s, recognised := %s }",
			leanStr(r.name), leanList(r.params), leanBool(r.lookupOK), leanBool(r.notFound), leanStr(r.callee), leanList(r.args), leanBool(r.returnsIt), leanBool(r.deletes), leanBool(r.delAfter), leanBool(r.recognised)))
	}
	w("def managerTable : List MgrRow := [\n%s\n]", strings.Join(rows, ",\n"))
	w("def managerOther : List String := %s", leanList(skipped))
	w("def managerGetTableEngine : List String := %s", leanList(stmtSrcs(findFunc(mgr, "manager", "GetTableEngine"))))
	// the tail of CreateTable: store only after a successful engine create
	ct := stmtSrcs(findFunc(mgr, "manager", "CreateTable"))
	tail := []string{}
	if len(ct) >= 4 {
		tail = ct[len(ct)-4:]
	}
	w("def managerCreateTail : List String := %s", leanList(tail))
	w("")

	// ---- settlement write-back
	w("def settleMode : String := %s", leanStr(settleMode(findFunc(teStage, "tableEngine", "settleGame"))))
	w("")

	// ---- position table
	consts := stringConsts([]*ast.File{constsF})
	counts, prow, ok := positionTable(findFunc(pos, "", "newPositions"), consts)
	w("def positionTableRecognised : Bool := %s", leanBool(ok))
	ptRows := []string{}
	for i := range counts {
		ptRows = append(ptRows, fmt.Sprintf("  (%d, %s)", counts[i], leanList(prow[i])))
	}
	w("def positionTable : List (Nat × List String) := [\n%s\n]", strings.Join(ptRows, ",\n"))
	// rotateStringArray(positions, K) call in updatePlayerPositions
	rot := "unknown"
	if fd := findFunc(pos, "tableEngine", "updatePlayerPositions"); fd != nil {
		ast.Inspect(fd, func(n ast.Node) bool {
			if c, ok := n.(*ast.CallExpr); ok && isIdent(c.Fun, "rotateStringArray") && len(c.Args) == 2 {
				rot = src(c.Args[1])
			}
			return true
		})
	}
	w("def positionRotateOffset : String := %s", leanStr(rot))
	w("")

	// ---- guards, as normalised statement text
	tgo := stmtSrcs(findFunc(teStage, "tableEngine", "tableGameOpen"))
	head := []string{}
	for i, s := range tgo {
		if i >= 4 {
			break
		}
		if strings.HasPrefix(s, "if te.table.State.GameState != nil") {
			s = "if te.table.State.GameState != nil {…}"
		}
		head = append(head, s)
	}
	w("/-- the statements that open tableGameOpen (lock, closed/released guard, running-hand guard) -/")
	w("def tableGameOpenHead : List String := %s", leanList(head))
	vgm := stmtSrcs(findFunc(teInt, "tableEngine", "validateGameMove"))
	w("def validateGameMoveBody : List String := %s", leanList(vgm))
	w("def gamePassBody : List String := %s", leanList(stmtSrcs(findFunc(gameF, "game", "Pass"))))
	w("def gameValidatePlayMove : List String := %s", leanList(stmtSrcs(findFunc(gameF, "game", "validatePlayMove"))))
	w("def gameValidateActionMove : List String := %s", leanList(stmtSrcs(findFunc(gameF, "game", "validateActionMove"))))
	w("")

	// ---- startGame: how the blind level is read
	blindRead := "unknown"
	if fd := findFunc(teStage, "tableEngine", "startGame"); fd != nil {
		for _, s := range fd.Body.List {
			t := src(s)
			if strings.HasPrefix(t, "blind := ") {
				blindRead = strings.TrimPrefix(t, "blind := ")
			}
		}
	}
	w("def startGameBlindRead : String := %s", leanStr(blindRead))
	w("")

	// ---- PlayerFold: where the fold round written to the statistics is read (before the fold is applied, or after)
	foldRead := "unknown"
	if fd := findFunc(te, "tableEngine", "PlayerFold"); fd != nil {
		rhs := ""
		ast.Inspect(fd.Body, func(n ast.Node) bool {
			a, ok := n.(*ast.AssignStmt)
			if ok && len(a.Lhs) == 1 && len(a.Rhs) == 1 && strings.HasSuffix(src(a.Lhs[0]), "GameStatistics.FoldRound") {
				rhs = src(a.Rhs[0])
			}
			return true
		})
		iFold := -1
		for i, st := range fd.Body.List {
			if iFold < 0 && strings.Contains(src(st), "te.game.Fold(") {
				iFold = i
			}
		}
		foldRead = "after-the-fold|" + rhs
		for i, st := range fd.Body.List {
			a, ok := st.(*ast.AssignStmt)
			if ok && a.Tok == token.DEFINE && len(a.Lhs) == 1 && len(a.Rhs) == 1 && src(a.Lhs[0]) == rhs && iFold >= 0 && i < iFold {
				foldRead = "before-the-fold|" + src(a.Rhs[0])
			}
		}
	}
	w("def foldRoundRead : String := %s", leanStr(foldRead))
	w("")

	// ---- PlayerBet / PlayerAllin: which hand state says whether the action made the player the raiser
	raiserReads := []string{}
	for _, fn := range []string{"PlayerBet", "PlayerAllin"} {
		if fd := findFunc(te, "tableEngine", fn); fd != nil {
			ast.Inspect(fd.Body, func(n ast.Node) bool {
				i, ok := n.(*ast.IfStmt)
				if ok && strings.Contains(src(i.Cond), "CurrentRaiser") {
					raiserReads = append(raiserReads, fn+": "+src(i.Cond))
				}
				return true
			})
		}
	}
	w("def raiserReads : List String := %s", leanList(raiserReads))
	w("")

	// ---- calcLeavePlayers: under which condition the hand's player indexes are re-mapped when players leave
	remapGuard := "unknown"
	if fd := findFunc(teInt, "tableEngine", "calcLeavePlayers"); fd != nil {
		for _, st := range fd.Body.List {
			if !strings.Contains(src(st), "newGamePlayerIndexes = append(") {
				continue
			}
			switch x := st.(type) {
			case *ast.IfStmt:
				remapGuard = "if " + src(x.Cond)
			case *ast.RangeStmt:
				remapGuard = "always: range " + src(x.X)
			default:
				remapGuard = "other"
			}
		}
	}
	w("def leaveRemapGuard : String := %s", leanStr(remapGuard))
	w("")

	// ---- tableGameOpen's retry loop: the statuses it takes for "a hand is already running" (then it gives up quietly)
	retryStatuses := []string{"not-found"}
	if fd := findFunc(teStage, "tableEngine", "tableGameOpen"); fd != nil {
		ast.Inspect(fd.Body, func(n ast.Node) bool {
			a, ok := n.(*ast.AssignStmt)
			if !ok || len(a.Lhs) != 1 || len(a.Rhs) != 1 || src(a.Lhs[0]) != "gameStartingStatuses" {
				return true
			}
			if cl, ok := a.Rhs[0].(*ast.CompositeLit); ok {
				retryStatuses = []string{}
				for _, e := range cl.Elts {
					retryStatuses = append(retryStatuses, src(e))
				}
			}
			return true
		})
		// how the list is used
		ast.Inspect(fd.Body, func(n ast.Node) bool {
			a, ok := n.(*ast.AssignStmt)
			if ok && len(a.Lhs) == 1 && len(a.Rhs) == 1 && src(a.Lhs[0]) == "isGameRunning" {
				retryStatuses = append(retryStatuses, "isGameRunning := "+src(a.Rhs[0]))
			}
			return true
		})
	}
	w("def retryRunningStatuses : List String := %s", leanList(retryStatuses))
	// … and what a turn of the loop does before anything else (wait, then look whether the table was closed or released)
	retryHead := []string{}
	if fd := findFunc(teStage, "tableEngine", "tableGameOpen"); fd != nil {
		done := false
		ast.Inspect(fd.Body, func(n ast.Node) bool {
			f, ok := n.(*ast.ForStmt)
			if !ok || done {
				return true
			}
			done = true
			for i, st := range f.Body.List {
				if i >= 2 {
					break
				}
				retryHead = append(retryHead, src(st))
			}
			return false
		})
	}
	w("def retryLoopHead : List String := %s", leanList(retryHead))
	w("")

	// ---- CreateTable: which status a new table gets (a break starts paused; an MTT table created with players is balancing
	// unless it is paused)
	createRules := []string{}
	if fd := findFunc(te, "tableEngine", "CreateTable"); fd != nil {
		ast.Inspect(fd.Body, func(n ast.Node) bool {
			f, ok := n.(*ast.IfStmt)
			if !ok {
				return true
			}
			for _, st := range f.Body.List {
				if a, ok := st.(*ast.AssignStmt); ok && len(a.Lhs) == 1 && len(a.Rhs) == 1 {
					l := src(a.Lhs[0])
					if l == "status" || l == "table.State.Status" {
						createRules = append(createRules, src(f.Cond)+" => "+l+" = "+src(a.Rhs[0]))
					}
				}
			}
			return true
		})
	}
	w("def createStatusRules : List String := %s", leanList(createRules))
	// ---- continueGame: what the delayed handler looks at first, when the timer fires (closed, released)
	handlerHead := []string{}
	if fd := findFunc(teStage, "tableEngine", "continueGame"); fd != nil {
		ast.Inspect(fd.Body, func(n ast.Node) bool {
			fl, ok := n.(*ast.FuncLit)
			if !ok || !strings.Contains(src(fl), "ShouldPause") || len(handlerHead) > 0 {
				return true
			}
			for i, st := range fl.Body.List {
				if i >= 2 {
					break
				}
				handlerHead = append(handlerHead, strings.Join(strings.Fields(src(st)), " "))
			}
			return false
		})
	}
	w("def continueHandlerHead : List String := %s", leanList(handlerHead))
	// ---- PlayerRedeemChips: the chips are credited (one `+=`) before the seat manager is told
	redeemSteps := []string{}
	for _, st := range stmtSrcs(findFunc(te, "tableEngine", "PlayerRedeemChips")) {
		one := strings.Join(strings.Fields(st), " ")
		switch {
		case strings.Contains(one, "UpdatePlayerHasChips"):
			redeemSteps = append(redeemSteps, "tell-seat-manager")
		case strings.Contains(one, "Bankroll") && !strings.HasPrefix(one, "if "):
			redeemSteps = append(redeemSteps, one)
		}
	}
	w("def redeemSteps : List String := %s", leanList(redeemSteps))
	// ---- createPlayerGameAction: where the hand id and the round of a recorded action are read from (the state the action
	// produced, passed in — not the live hand state, which the hand's own goroutine updates: D33)
	recordReads := []string{}
	if fd := findFunc(teInt, "tableEngine", "createPlayerGameAction"); fd != nil {
		ast.Inspect(fd.Body, func(n ast.Node) bool {
			if a, ok := n.(*ast.AssignStmt); ok && len(a.Lhs) == 1 && len(a.Rhs) == 1 {
				if l := src(a.Lhs[0]); l == "pga.GameID" || l == "pga.Round" {
					recordReads = append(recordReads, l+" = "+src(a.Rhs[0]))
				}
			}
			return true
		})
	}
	w("def actionRecordReads : List String := %s", leanList(recordReads))
	w("")

	// ---- calcGamePlayerIndexes: the test that admits a player to the hand's list (every `if` around an append to the list)
	listTests := []string{}
	if fd := findFunc(teInt, "tableEngine", "calcGamePlayerIndexes"); fd != nil {
		ast.Inspect(fd.Body, func(n ast.Node) bool {
			i, ok := n.(*ast.IfStmt)
			if !ok {
				return true
			}
			for _, st := range i.Body.List {
				if a, ok := st.(*ast.AssignStmt); ok && strings.HasPrefix(src(a), "gamePlayerIndexes = append(gamePlayerIndexes") {
					listTests = append(listTests, src(i.Cond))
				}
			}
			return true
		})
	}
	w("def handListTests : List String := %s", leanList(listTests))
	w("")

	// ---- statistics: the event symbol validateGameStatisticGameState compares with
	statEv := "unknown"
	if fd := findFunc(stats, "tableEngine", "validateGameStatisticGameState"); fd != nil && len(fd.Body.List) > 0 {
		statEv = src(fd.Body.List[0])
	}
	w("def statValidEventStmt : String := %s", leanStr(statEv))
	w("")

	// ---- timeouts
	timeouts := []string{}
	for _, f := range []*ast.File{gameF, te, teInt} {
		if f == nil {
			continue
		}
		ast.Inspect(f, func(n ast.Node) bool {
			c, ok := n.(*ast.CallExpr)
			if !ok {
				return true
			}
			s := src(c.Fun)
			if (s == "syncsaga.WithTimeout" || s == "te.rg.SetTimeoutInterval") && len(c.Args) >= 1 {
				timeouts = append(timeouts, s+"("+src(c.Args[0])+")")
			}
			return true
		})
		ast.Inspect(f, func(n ast.Node) bool {
			kv, ok := n.(*ast.KeyValueExpr)
			if ok && src(kv.Key) == "Timeout" {
				timeouts = append(timeouts, "Timeout: "+src(kv.Value))
			}
			return true
		})
	}
	w("def timeouts : List String := %s", leanList(timeouts))
	w("")

	// ---- the hand's request groups: response time-out and what its callback does (NewGame in game.go)
	gtSecs := "0"
	gtBody := []string{}
	if fd := findFunc(gameF, "", "NewGame"); fd != nil {
		ast.Inspect(fd, func(n ast.Node) bool {
			c, ok := n.(*ast.CallExpr)
			if !ok || src(c.Fun) != "syncsaga.WithTimeout" || len(c.Args) != 2 {
				return true
			}
			if lit, ok := c.Args[0].(*ast.BasicLit); ok {
				gtSecs = lit.Value
			}
			if fl, ok := c.Args[1].(*ast.FuncLit); ok && fl.Body != nil {
				for _, st := range fl.Body.List {
					gtBody = append(gtBody, src(st))
				}
			}
			return false
		})
	}
	w("/-- response time-out of the hand's ready / ante / blind groups (seconds) and its callback, statement by statement -/")
	w("def gameTimeoutSecs : Nat := %s", gtSecs)
	w("def gameTimeoutBody : List String := %s", leanList(gtBody))
	w("")

	// ---- actor facts
	w("/-- observerRunner.OnTableStateUpdated, statement by statement (registering a listener hands it nothing) -/")
	w("def observerSubscribe : List String := %s", leanList(stmtSrcs(findFunc(obs, "observerRunner", "OnTableStateUpdated"))))
	w("")
	w("/-- playerRunner.UpdateTableState, statement by statement (the staleness filter) -/")
	w("def playerUpdate : List String := %s", leanList(stmtSrcs(findFunc(playerR, "playerRunner", "UpdateTableState"))))
	w("")
	w("/-- observerRunner.UpdateTableState, statement by statement -/")
	w("def observerUpdate : List String := %s", leanList(stmtSrcs(findFunc(obs, "observerRunner", "UpdateTableState"))))
	conds, acts := hasActionChain(findFunc(playerR, "playerRunner", "automate"))
	w("def automateConds : List String := %s", leanList(conds))
	w("def automateActs : List String := %s", leanList(acts))
	w("def automateBody : List String := %s", leanList(stmtSrcs(findFunc(playerR, "playerRunner", "automate"))))
	w("def playerRequestMove : List String := %s", leanList(stmtSrcs(findFunc(playerR, "playerRunner", "requestMove"))))
	conds2, acts2 := hasActionChain(findFunc(botR, "botRunner", "requestMove"))
	w("/-- botRunner.UpdateTableState, statement by statement (who reacts, the staleness filter) -/")
	w("def botUpdate : List String := %s", leanList(stmtSrcs(findFunc(botR, "botRunner", "UpdateTableState"))))
	w("def botRequestConds : List String := %s", leanList(conds2))
	w("def botRequestActs : List String := %s", leanList(acts2))
	w("def botRequestAI : List String := %s", leanList(stmtSrcs(findFunc(botR, "botRunner", "requestAI"))))
	w("def adapterUpdate : List String := %s", leanList(stmtSrcs(findFunc(adapter, "tableEngineAdapter", "UpdateTableState"))))
	w("")
	w("/-- tableEngineAdapter.SetActor and actor.SetAdapter, statement by statement (attaching hands the runner nothing) -/")
	w("def adapterSetActor : List String := %s", leanList(stmtSrcs(findFunc(adapter, "tableEngineAdapter", "SetActor"))))
	w("def actorSetAdapter : List String := %s", leanList(stmtSrcs(findFunc(parseFile(filepath.Join(repo, "actor", "actor.go")), "actor", "SetAdapter"))))
	w("/-- playerRunner.Fold: the player's own fold brings him back (Resume) whether or not the table accepts it -/")
	w("def playerFold : List String := %s", leanList(stmtSrcs(findFunc(playerR, "playerRunner", "Fold"))))
	w("/-- playerRunner.Idle / Suspend / Resume: the runner's status machine (an idle report on a suspended player makes him idle again) -/")
	w("def playerIdle : List String := %s", leanList(stmtSrcs(findFunc(playerR, "playerRunner", "Idle"))))
	w("def playerSuspend : List String := %s", leanList(stmtSrcs(findFunc(playerR, "playerRunner", "Suspend"))))
	w("def playerResume : List String := %s", leanList(stmtSrcs(findFunc(playerR, "playerRunner", "Resume"))))
	w("/-- botRunner.requestMove, statement by statement (a humanised bot parks the move on its time bank and decides on the state it was asked on) -/")
	w("def botRequestMove : List String := %s", leanList(stmtSrcs(findFunc(botR, "botRunner", "requestMove"))))
	w("")
	w("/-- actor.UpdateTableState, statement by statement (deliveries to one actor are queued behind its mutex, none is dropped) -/")
	w("def actorUpdate : List String := %s", leanList(stmtSrcs(findFunc(parseFile(filepath.Join(repo, "actor", "actor.go")), "actor", "UpdateTableState"))))
	w("")
	w("def shouldPauseBody : List String := %s", leanList(stmtSrcs(findFunc(tableF, "Table", "ShouldPause"))))
	w("def isBreakingBody : List String := %s", leanList(stmtSrcs(findFunc(tableF, "TableBlindState", "IsBreaking"))))
	w("def isSetBody : List String := %s", leanList(stmtSrcs(findFunc(tableF, "TableBlindState", "IsSet"))))
	w("")
	w("end Facts")

	os.MkdirAll(filepath.Dir(out), 0755)
	if err := os.WriteFile(out, []byte(b.String()), 0644); err != nil {
		fmt.Fprintln(os.Stderr, "extract:", err)
		os.Exit(2)
	}
}
